# FP probe: conf_frac / min units / train_rows for symbolic double alpha, symbolic int n
import z3, time, math, fractions, sys
F = z3.Float64(); RNE = z3.RNE()
def fpv(x): return z3.FPVal(x, F)
alpha = z3.FP("alpha", F)
n = z3.BitVec("n", 14)
nf = z3.fpUnsignedToFP(RNE, n, F)
# round(x,2) on [0,0.9] as step table
def round2_table():
    # thresholds: for k in 0..90 value c_k=float(k/100); x rounds to c_k iff python round(x,2)==c_k
    # find for each k the smallest double x with round(x,2) >= c_k by bisection on doubles
    import struct
    def nxt(x): return math.nextafter(x, math.inf)
    th = []
    for k in range(1, 91):
        lo, hi = (k-1)/100, k/100   # round(lo)=c_{k-1}, round(hi)=c_k
        while nxt(lo) < hi:
            mid = (lo+hi)/2
            if round(mid, 2) >= k/100: hi = mid
            else: lo = mid
        th.append(hi)
    return th
TH = round2_table()
def round2(x):
    r = fpv(0.0)
    for k, t in enumerate(TH, start=1):
        r = z3.If(z3.fpGEQ(x, fpv(t)), fpv(k/100), r)
    return r
one = fpv(1.0)
# _compute_conf_frac: round(min(1 + (alpha + 1) / (n * (alpha - 1)), 0.9), 2)
inner = z3.fpAdd(RNE, one, z3.fpDiv(RNE, z3.fpAdd(RNE, alpha, one), z3.fpMul(RNE, nf, z3.fpSub(RNE, alpha, one))))
m = z3.If(z3.fpLT(inner, fpv(0.9)), inner, fpv(0.9))   # python min(a,b): b if b<a else a -> min(inner,0.9) returns inner unless 0.9<inner
m = z3.If(z3.fpLT(fpv(0.9), inner), fpv(0.9), inner)
frac = round2(m)
# min units: ceil(-1*(alpha+1)/(alpha-1))
mn = z3.fpRoundToIntegral(z3.RTP(), z3.fpDiv(RNE, z3.fpMul(RNE, fpv(-1.0), z3.fpAdd(RNE, alpha, one)), z3.fpSub(RNE, alpha, one)))
train = z3.fpRoundToIntegral(z3.RTN(), z3.fpMul(RNE, nf, frac))
s = z3.Solver(); s.set("timeout", int(sys.argv[1])*1000 if len(sys.argv)>1 else 60000)
s.add(z3.fpGT(alpha, fpv(0.0)), z3.fpLT(alpha, fpv(1.0)))
s.add(z3.UGE(n, 1), z3.ULE(n, 5000))
s.add(z3.fpGEQ(nf, mn))           # gate passed
s.add(z3.fpGEQ(m, fpv(0.0)))      # for the table domain; else inner negative
s.add(z3.fpLT(train, one))        # violation: no training unit
t=time.time(); r = s.check(); print("z3", r, round(time.time()-t,1))
if r == z3.sat:
    mdl = s.model(); print(mdl[n], mdl.eval(alpha), float(fractions.Fraction(str(mdl.eval(z3.fpToReal(alpha)).as_fraction()))) , mdl.eval(frac), mdl.eval(train))
open("/tmp/probe/p3.smt2","w").write("(set-logic ALL)\n"+s.to_smt2())
