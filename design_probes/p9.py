import logging, sys, warnings
import numpy as np, pandas as pd
from elexmodel.client import ModelClient
logging.disable(logging.CRITICAL); warnings.filterwarnings("ignore")
config = {"2024-01-01_USA_G": [{"office": "S", "states": ["AA", "BB"], "geographic_unit_types": ["county"], "historical_election": [],
          "features": [], "aggregates": ["postal_code", "county_fips", "county_classification", "unit"], "fixed_effect": ["postal_code", "county_classification"],
          "baseline_pointer": {"dem": "dem", "gop": "gop", "turnout": "turnout"}}]}
rng = np.random.default_rng(3)
n = 30
st = ["AA"] * 15 + ["BB"] * 15
fips = [f"{s}{i:02d}" for i, s in enumerate(st)]
bd = rng.integers(300, 900, n); bg = rng.integers(300, 900, n)
pre = pd.DataFrame({"postal_code": st, "geographic_unit_fips": fips, "county_fips": fips, "county_classification": rng.choice(["k1", "k2"], n),
                    "baseline_dem": bd, "baseline_gop": bg, "baseline_turnout": bd + bg + 20})
pre["baseline_normalized_margin"] = (pre.baseline_dem - pre.baseline_gop) / (pre.baseline_dem + pre.baseline_gop)
rd = (bd * rng.uniform(0.8, 1.2, n)).astype(int); rg = (bg * rng.uniform(0.8, 1.2, n)).astype(int)
pev = np.array([100] * 12 + [40] * 3 + [100] * 12 + [60] * 3)
cur = pd.DataFrame({"postal_code": st, "geographic_unit_fips": fips, "results_dem": (rd * pev / 100).astype(int), "results_gop": (rg * pev / 100).astype(int), "percent_expected_vote": pev})
cur["results_turnout"] = cur.results_dem + cur.results_gop + 5
mode = sys.argv[1]
if "unexp" in mode:
    cur = pd.concat([cur, pd.DataFrame({"postal_code": ["AA"], "geographic_unit_fips": ["AA99"], "results_dem": [50], "results_gop": [40], "results_turnout": [95], "percent_expected_vote": [100]})], ignore_index=True)
aggs = {"default": ["postal_code", "unit"], "county_last": ["postal_code", "county_fips", "unit"], "county_first": ["county_fips", "postal_code", "unit"],
        "class_unexp": ["postal_code", "county_classification", "unit"], "county_unexp": ["postal_code", "county_fips", "unit"]}[mode]
try:
    mc = ModelClient()
    out = mc.get_estimates(cur, "2024-01-01_USA_G", "S", ["margin"], prediction_intervals=[0.9], percent_reporting_threshold=100, geographic_unit_type="county",
        raw_config=config, preprocessed_data=pre, save_output=[], pi_method="bootstrap", aggregates=aggs, features=["baseline_normalized_margin"],
        model_parameters={"B": 20, "lambda_": 1.0, "fit_margin_outlier_model": False, "fit_turnout_outlier_model": False})
    print(mode, "estimates OK", {k: v.shape for k, v in out.items()})
    ns = mc.get_national_summary_votes_estimates({"AA": 3, "BB": 4}, 10, [0.9])
    print(mode, "natsum", ns.to_dict("records"))
except Exception as e:
    import traceback; print(mode, "EXC", type(e).__name__, str(e)[:200]); print("".join(traceback.format_tb(e.__traceback__)[-2:])[-600:])
