import sys, time, os; sys.path.insert(0, "/tmp/probe")
os.environ.update(MODEL_S3_PATH_ROOT="root", DATA_ENV="dev", APP_ENV="local")
import logging, numpy as np, pandas as pd, z3
import dse
from dse import Sym, SymB, Ctx, explore, symcol, _term
from elexmodel.handlers.data.VersionedData import VersionedDataHandler
logging.disable(logging.CRITICAL)
dse.install()
import numpy
_isnan = numpy.isnan
def isnan(x, *a, **k):
    v = getattr(x, "values", x)
    if isinstance(v, np.ndarray) and v.dtype == object:
        return np.frompyfunc(lambda e: isinstance(e, float) and e != e, 1, 1)(v).astype(bool)
    return _isnan(x, *a, **k)
numpy.isnan = isnan
Sym.__floor__ = lambda s: Sym(z3.ToReal(z3.ToInt(s.t)))
def sym_int(s):
    # concretise by forking over integer values (bounded)
    ctx = Ctx.cur
    fl = z3.ToInt(s.t)
    for k in range(0, 8):
        if ctx.decide(fl == k): return k
    raise dse.Abort("int out of probe range")
Sym.__int__ = sym_int
V = int(sys.argv[1]); P = int(sys.argv[2])
def harness(ctx):
    dem = symcol(ctx, "dem", V, lo=0, integer=True); gop = symcol(ctx, "gop", V, lo=0, integer=True)
    oth = symcol(ctx, "oth", V, lo=0, integer=True)
    pev = symcol(ctx, "pev", V, lo=0, hi=P)
    turnout = dem + gop + oth
    df = pd.DataFrame({"geographic_unit_fips": ["u"] * V, "results_dem": dem, "results_gop": gop, "results_turnout": turnout,
                       "results_weights": dem + gop, "percent_expected_vote": pev, "last_modified": list(range(V))})
    # normalized margin as the Estimandizer would (nan_to_num -> 0)
    df["results_margin"] = df.results_dem - df.results_gop
    df["results_normalized_margin"] = np.nan_to_num(df.results_margin / df.results_weights, nan=0, posinf=0, neginf=0)
    h = VersionedDataHandler.__new__(VersionedDataHandler)
    out = h.compute_versioned_margin_estimate(df)
    harness.last = out
    props = []
    if (out.error_type == "none").all():
        for _, r in out.iterrows():
            t = _term(r.est_margin)
            props.append((f"in_range_{r.percent_expected_vote}", z3.And(t >= -1, t <= 1)))
    return props
t = time.time()
r = explore(harness, max_paths=int(sys.argv[3]), timeout_ms=10000)
print("paths", r["paths"], "forks", r["forks"], "checks", r["checks"], "solver_s", round(r["solver_s"], 1), "wall", round(time.time() - t, 1), r["exc"])
print("\n".join(r["exc_samples"][:1])[-1200:])
from collections import Counter
print(Counter((x[0], x[1]) for x in r["results"]).most_common(6))
for x in r["results"][:1]:
    if x[0] == "VIOLATION": print(x[2])
print(harness.last.to_string()[:800])
