import sys, time, os; sys.path.insert(0, "/tmp/probe")
os.environ.update(MODEL_S3_PATH_ROOT="root", DATA_ENV="dev", APP_ENV="local")
import logging, numpy as np, pandas as pd, z3
import dse
from dse import Sym, SymB, Ctx, explore, symcol, _term
from elexsolver.OLSRegressionSolver import OLSRegressionSolver as OLS
from elexmodel.models.BootstrapElectionModel import BootstrapElectionModel as BEM
logging.disable(logging.CRITICAL)
dse.install()
import numpy, numpy._core.umath as um
# clip merge at umath level
_oclip = um.clip
def _clip1(a, lo, hi):
    return dse._mk_min(dse._mk_max(a, lo), hi)
_uclip = np.frompyfunc(_clip1, 3, 1)
class UP:
    def __init__(s, f, o): s._f = f; s._o = o
    def __call__(s, *a, **k): return s._f(*a, **k)
    def __getattr__(s, n): return getattr(s._o, n)
def clip(a, lo, hi, out=None, **kw):
    if dse._has_sym(a, lo, hi): return _uclip(a, lo, hi)
    return _oclip(a, lo, hi, out=out, **kw)
um.clip = UP(clip, _oclip)
um.maximum = numpy.maximum; um.minimum = numpy.minimum
cnt = [0]
def fresh(shape, tag):
    ctx = Ctx.cur; cnt[0] += 1
    a = np.empty(shape, dtype=object)
    for idx in np.ndindex(*shape): a[idx] = Sym(ctx.fresh(f"{tag}{cnt[0]}_" + "_".join(map(str, idx))))
    return a
def ols_fit(self, x, y, weights=None, lambda_=0.0, normal_eqs=None, fit_intercept=True, regularize_intercept=False, n_feat_ignore_reg=0):
    self._ycols = y.shape[1] if y.ndim > 1 else 1; self.normal_eqs = "NE"; self.coefficients = fresh((x.shape[1], self._ycols), "coef")
def ols_predict(self, x): return fresh((x.shape[0], self._ycols), "olsp")
def ols_res(self, y, y_hat, loo=True, center=True): return fresh(y.shape, "olsr")
OLS.fit = ols_fit; OLS.predict = ols_predict; OLS.residuals = ols_res
BEM._estimate_epsilon = lambda self, residuals, agg: fresh((agg.shape[1], residuals.shape[1]), "eps")
BEM._estimate_strata_dist = lambda self, *a, **k: ({}, {})
B = int(sys.argv[1]); NT = int(sys.argv[2]); NTR = 2
BEM._bootstrap_errors = lambda self, e1, e2, d1, d2, xs, *a: ((fresh((e1.shape[0], self.B), "eyB"), fresh((e1.shape[0], self.B), "ezB")), (fresh((xs.shape[0], self.B), "dyB"), fresh((xs.shape[0], self.B), "dzB")))
BEM._sample_test_errors = lambda self, r1, r2, e1, e2, xts, *a: (fresh((xts.shape[0], self.B), "ty"), fresh((xts.shape[0], self.B), "tz"))
def harness(ctx):
    cnt[0] = 0
    m = BEM({"features": ["baseline_normalized_margin"], "B": B, "lambda_": 1.0})
    def frame(n, tag, rep):
        w = symcol(ctx, tag + "w", n, lo=1)
        d = pd.DataFrame({"postal_code": ["AA"] * n, "geographic_unit_fips": [f"{tag}{i}" for i in range(n)],
            "county_classification": ["k1"] * n, "baseline_normalized_margin": [0.1 * (i + 1) for i in range(n)],
            "reporting": [rep] * n, "unit_category": ["expected"] * n, "baseline_weights": w})
        nm = symcol(ctx, tag + "nm", n, lo=-1, hi=1); tf = symcol(ctx, tag + "tf", n, lo=0)
        d["results_normalized_margin"] = nm; d["turnout_factor"] = tf
        d["percent_expected_vote"] = symcol(ctx, tag + "pev", n, lo=0, hi=120) if not rep else [100] * n
        return d
    rep = frame(NTR, "r", 1); non = frame(NT, "n", 0); unx = frame(0, "u", 0)
    m.compute_bootstrap_errors(rep, non, unx)
    props = []
    for i in range(NT):
        for b in range(B):
            e1, e3 = _term(m.errors_B_1[i, b]), _term(m.errors_B_3[i, b])
            e2, e4 = _term(m.errors_B_2[i, b]), _term(m.errors_B_4[i, b])
            props.append((f"z_nonneg_{i}_{b}", z3.And(e3 >= 0, e4 >= 0)))
            props.append((f"absy_le1_{i}_{b}", z3.And(e1 <= e3, -e1 <= e3, e2 <= e4, -e2 <= e4)))
    harness.m = m
    return props
t = time.time()
r = explore(harness, max_paths=3000, timeout_ms=20000)
print("paths", r["paths"], "forks", r["forks"], "checks", r["checks"], "solver_s", round(r["solver_s"], 1), "wall", round(time.time() - t, 1), r["exc"])
print("\n".join(r["exc_samples"][:1])[-1500:])
from collections import Counter
print(Counter((x[0], x[1]) for x in r["results"]).most_common(8))
print(str(harness.m.errors_B_3[0, 0])[:300])
