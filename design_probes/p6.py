import logging, sys
import numpy as np, pandas as pd, cvxpy
from elexsolver.QuantileRegressionSolver import QuantileRegressionSolver as QRS
from elexmodel.client import ModelClient
logging.disable(logging.CRITICAL)
orig = QRS.fit; state = {"k": 0}
def fit(self, *a, **k):
    state["k"] += 1
    if state["k"] == int(sys.argv[1]):
        raise cvxpy.error.SolverError("injected")
    return orig(self, *a, **k)
QRS.fit = fit
config = {"E": [{"office": "G", "states": ["AA"], "geographic_unit_types": ["county"], "historical_election": [],
                 "features": [], "aggregates": ["postal_code", "unit"], "fixed_effect": []}]}
n = 12; rng = np.random.default_rng(1)
fips = [f"c{i}" for i in range(n)]; base = rng.integers(500, 1500, n); res = (base * rng.uniform(0.8, 1.3, n)).astype(int)
pre = pd.DataFrame({"postal_code": ["AA"]*n, "geographic_unit_fips": fips, "county_fips": fips, "baseline_turnout": base})
cur = pd.DataFrame({"postal_code": ["AA"]*n, "geographic_unit_fips": fips, "results_turnout": res, "percent_expected_vote": [100]*10 + [50]*2})
try:
    out = ModelClient().get_estimates(cur, "E", "G", ["turnout"], prediction_intervals=[0.7], percent_reporting_threshold=100,
        geographic_unit_type="county", raw_config=config, preprocessed_data=pre, save_output=[],
        aggregates=["postal_code", "unit"], model_parameters={"fit_margin_outlier_model": False, "fit_turnout_outlier_model": False})
    print("OK fits:", state["k"]); print(out["state_data"].T)
except Exception as e:
    print("EXC", type(e).__name__, str(e)[:200])
