from typing import List
import pandas as pd
from elexmodel.handlers import s3
from elexmodel.distributions.GaussianModel import GaussianModel
from elexmodel.handlers.data.CombinedData import CombinedDataHandler
from elexmodel.handlers.data.ModelResults import ModelResultsHandler

class Rec:
    keys: List[str] = []
    def __init__(self, bucket, client=None): pass
    def put(self, filename, data, **kw): Rec.keys.append(filename)

def gaussian_keys(eid: str, office: str, gut: str, estimand: str) -> List[str]:
    """
    pre: len(eid) <= 3 and len(office) <= 2 and len(gut) <= 2 and len(estimand) <= 2
    pre: not any(c.isspace() for c in eid + office + gut + estimand)
    post: all(not any(c.isspace() for c in k) for k in __return__)
    """
    Rec.keys = []
    orig = s3.S3CsvUtil; s3.S3CsvUtil = Rec
    try:
        g = GaussianModel({"election_id": eid, "office": office, "geographic_unit_type": gut})
        df = pd.DataFrame({"a": [1]})
        g._write_conformalization_data(df, eid, office, gut, estimand, ["postal_code"], 0.9)
        g._write_gaussian_bounds(df, eid, office, gut, estimand, ["postal_code"], 0.9)
    finally:
        s3.S3CsvUtil = orig
    return list(Rec.keys)

def combined_keys(eid: str, office: str, gut: str) -> List[str]:
    """
    pre: len(eid) <= 3 and len(office) <= 2 and len(gut) <= 2
    pre: not any(c.isspace() for c in eid + office + gut)
    post: all(not any(c.isspace() for c in k) for k in __return__)
    """
    Rec.keys = []
    orig = s3.S3CsvUtil; s3.S3CsvUtil = Rec
    try:
        h = CombinedDataHandler.__new__(CombinedDataHandler)
        h.current_data = pd.DataFrame({"geographic_unit_fips": ["1", "2_3"]}); h.geographic_unit_type = gut
        h.write_data(eid, office)
    finally:
        s3.S3CsvUtil = orig
    return list(Rec.keys)
