# Prototype: pandas-in-the-loop dynamic symbolic execution (probe only)
import z3, numpy as np, math, time, fractions

class Abort(BaseException):
    pass

class Ctx:
    cur = None
    def __init__(self, timeout_ms=20000):
        self.solver = z3.Solver()
        self.solver.set("timeout", timeout_ms)
        self.prefix = []
        self.trace = []     # list of (decision, had_alternative)
        self.nvars = 0
        self.stats = dict(forks=0, checks=0, solver_s=0.0)
        self.vars = {}
    def fresh(self, name, sort="real"):
        if name in self.vars: return self.vars[name]
        v = z3.Real(name) if sort == "real" else z3.Int(name) if sort == "int" else z3.Bool(name)
        self.vars[name] = v
        return v
    def check(self, *extra):
        t = time.time()
        r = self.solver.check(*extra)
        self.stats["solver_s"] += time.time() - t
        self.stats["checks"] += 1
        return r
    def assume(self, cond):
        self.solver.add(cond)
    def decide(self, cond):
        cond = z3.simplify(cond)
        if z3.is_true(cond): return True
        if z3.is_false(cond): return False
        k = len(self.trace)
        if k < len(self.prefix):
            d = self.prefix[k]
            self.solver.add(cond if d else z3.Not(cond))
            self.trace.append((d, False))  # alternative handled by scheduler
            return d
        rt = self.check(cond)
        rf = self.check(z3.Not(cond))
        if rt == z3.unknown or rf == z3.unknown:
            raise RuntimeError("solver unknown at fork: %s" % cond)
        if rt == z3.sat and rf == z3.sat:
            self.solver.add(cond)
            self.trace.append((True, True))
            self.stats["forks"] += 1
            return True
        if rt == z3.sat:
            self.solver.add(cond); self.trace.append((True, False)); return True
        if rf == z3.sat:
            self.solver.add(z3.Not(cond)); self.trace.append((False, False)); return False
        raise Abort("infeasible path")

def explore(harness, max_paths=100000, timeout_ms=20000, verbose=False):
    """harness(ctx) -> list of (name, z3 Bool property). Returns summary."""
    prefix = []
    npaths = 0
    results = []
    tot = dict(forks=0, checks=0, solver_s=0.0)
    exc = {}; exc_samples = []
    while True:
        ctx = Ctx(timeout_ms); ctx.prefix = prefix; Ctx.cur = ctx
        try:
            props = harness(ctx)
            npaths += 1
            for name, p in props:
                r = ctx.check(z3.Not(p))
                if r == z3.sat:
                    results.append(("VIOLATION", name, ctx.solver.model(), list(prefix)))
                elif r == z3.unknown:
                    results.append(("UNKNOWN", name, None, list(prefix)))
        except Abort:
            pass
        except Exception as e:
            npaths += 1
            exc[type(e).__name__] = exc.get(type(e).__name__, 0) + 1
            if type(e).__name__ not in ("ModelNotEnoughSubunitsException",) and len(exc_samples) < 3:
                import traceback; exc_samples.append(traceback.format_exc()[-1500:])
        for k in tot: tot[k] += ctx.stats[k]
        if verbose:
            print("path", npaths, "len", len(ctx.trace), "forks", ctx.stats["forks"], "checks", ctx.stats["checks"], "solver_s", round(ctx.stats["solver_s"],2), "exc", dict(exc), flush=True)
        # backtrack: find deepest decision that had an alternative & was True beyond prefix
        tr = ctx.trace
        # mark: positions < len(prefix) were forced by prefix; those with had_alt True are new forks
        # Build list of decisions
        decs = [d for d, _ in tr]
        alts = [a for _, a in tr]
        # inherited alternatives: we need to keep a stack of pending; use encoding: prefix entries
        # that are True and flagged pending in 'pending' set
        nxt = None
        for i in range(len(tr) - 1, -1, -1):
            if alts[i] or (i < len(prefix) and pending_flags[i]):
                nxt = i; break
        if nxt is None: break
        new_prefix = decs[:nxt] + [False]
        new_flags = [(alts[j] or (j < len(prefix) and pending_flags[j])) for j in range(nxt)] + [False]
        prefix = new_prefix
        globals()["pending_flags"] = new_flags
        if npaths >= max_paths:
            results.append(("PATHLIMIT", None, None, None)); break
    return dict(paths=npaths, results=results, exc=exc, exc_samples=exc_samples, **tot)

pending_flags = []

def _term(o):
    if isinstance(o, Sym): return o.t
    if isinstance(o, (bool, np.bool_)): return z3.RealVal(int(o))
    if isinstance(o, (int, np.integer)): return z3.RealVal(int(o))
    if isinstance(o, (float, np.floating)):
        f = float(o)
        if f != f or f in (float("inf"), float("-inf")): return None
        return z3.RealVal(str(fractions.Fraction(f)))
    if isinstance(o, fractions.Fraction): return z3.RealVal(str(o))
    return NotImplemented

class Sym:
    __slots__ = ("t",)
    def __init__(s, t): s.t = t
    def _bin(s, o, f, r=False):
        ot = _term(o)
        if ot is NotImplemented: return NotImplemented
        if ot is None:  # nan/inf concrete operand
            return float(o) if True else None
        return Sym(z3.simplify(f(ot, s.t) if r else f(s.t, ot)))
    def __add__(s, o): return s._bin(o, lambda a, b: a + b)
    def __radd__(s, o): return s._bin(o, lambda a, b: a + b, True)
    def __sub__(s, o): return s._bin(o, lambda a, b: a - b)
    def __rsub__(s, o): return s._bin(o, lambda a, b: a - b, True)
    def __mul__(s, o): return s._bin(o, lambda a, b: a * b)
    def __rmul__(s, o): return s._bin(o, lambda a, b: a * b, True)
    def __neg__(s): return Sym(-s.t)
    def __pos__(s): return s
    def __abs__(s): return Sym(z3.If(s.t >= 0, s.t, -s.t))
    def __pow__(s, k):
        if isinstance(k, (int, np.integer)) or float(k).is_integer():
            k = int(k); r = z3.RealVal(1)
            for _ in range(k): r = r * s.t
            return Sym(r)
        return NotImplemented
    def _div(s, num, den):
        ctx = Ctx.cur
        if ctx.decide(den == 0):
            if ctx.decide(num > 0): return float("inf")
            if ctx.decide(num < 0): return float("-inf")
            return float("nan")
        return Sym(z3.simplify(num / den))
    def __truediv__(s, o):
        ot = _term(o)
        if ot is NotImplemented: return NotImplemented
        if ot is None: return float("nan")
        return s._div(s.t, ot)
    def __rtruediv__(s, o):
        ot = _term(o)
        if ot is NotImplemented: return NotImplemented
        if ot is None: return float("nan")
        return s._div(ot, s.t)
    def _cmp(s, o, f):
        ot = _term(o)
        if ot is NotImplemented: return NotImplemented
        if ot is None:
            fo = float(o)
            if fo != fo: return False
            raise NotImplementedError("cmp with inf")
        return SymB(f(s.t, ot))
    def __ge__(s, o): return s._cmp(o, lambda a, b: a >= b)
    def __gt__(s, o): return s._cmp(o, lambda a, b: a > b)
    def __le__(s, o): return s._cmp(o, lambda a, b: a <= b)
    def __lt__(s, o): return s._cmp(o, lambda a, b: a < b)
    def __eq__(s, o): return s._cmp(o, lambda a, b: a == b)
    def __ne__(s, o): return s._cmp(o, lambda a, b: a != b)
    def __hash__(s): raise TypeError("Sym is unhashable: symbolic value used as a key")
    def __repr__(s): return "Sym(%s)" % (str(s.t)[:40])
    def rint(s):
        x = s.t
        f = z3.ToInt(x + z3.RealVal("1/2"))
        tie = (z3.ToReal(f) == x + z3.RealVal("1/2"))
        r = z3.If(z3.And(tie, f % 2 != 0), f - 1, f)
        return Sym(z3.ToReal(r))
    def __round__(s, n=None): return s.rint()
    def __float__(s): raise TypeError("Sym realised to float")
    def sqrt(s): raise NotImplementedError

class SymB:
    __slots__ = ("t",)
    def __init__(s, t): s.t = t
    def __bool__(s): return Ctx.cur.decide(s.t)
    def __and__(s, o): return SymB(z3.And(s.t, o.t if isinstance(o, SymB) else z3.BoolVal(bool(o))))
    __rand__ = __and__
    def __or__(s, o): return SymB(z3.Or(s.t, o.t if isinstance(o, SymB) else z3.BoolVal(bool(o))))
    __ror__ = __or__
    def __invert__(s): return SymB(z3.Not(s.t))
    def __repr__(s): return "SymB(%s)" % (str(s.t)[:40])

def symcol(ctx, name, n, lo=None, hi=None, integer=False):
    out = np.empty(n, dtype=object)
    for i in range(n):
        v = ctx.fresh(f"{name}_{i}", "int" if integer else "real")
        if lo is not None: ctx.assume(v >= lo)
        if hi is not None: ctx.assume(v <= hi)
        out[i] = Sym(z3.ToReal(v) if integer else v)
    return out

# ---------------- numpy patches (merge instead of fork) -----------------
_orig = {}
def _has_sym(*args):
    for a in args:
        if isinstance(a, (Sym, SymB)): return True
        v = getattr(a, "values", a)
        if isinstance(v, np.ndarray) and v.dtype == object:
            return True
    return False

def _ite(c, a, b):
    if isinstance(c, SymB):
        ta, tb = _term(a), _term(b)
        if ta is None or tb is None or ta is NotImplemented or tb is NotImplemented:
            return a if bool(c) else b
        return Sym(z3.simplify(z3.If(c.t, ta, tb)))
    return a if c else b

def _mk_max(a, b):
    if isinstance(a, Sym) or isinstance(b, Sym):
        return _ite(a >= b, a, b)
    return a if a >= b else b
def _mk_min(a, b):
    if isinstance(a, Sym) or isinstance(b, Sym):
        return _ite(a <= b, a, b)
    return a if a <= b else b
_umax = np.frompyfunc(_mk_max, 2, 1)
_umin = np.frompyfunc(_mk_min, 2, 1)

def install():
    import numpy
    if _orig: return
    _orig["maximum"] = numpy.maximum; _orig["minimum"] = numpy.minimum
    _orig["nan_to_num"] = numpy.nan_to_num; _orig["isclose"] = numpy.isclose
    _orig["quantile"] = numpy.quantile
    def maximum(a, b, *args, **kw):
        if _has_sym(a, b): return _umax(a, b)
        return _orig["maximum"](a, b, *args, **kw)
    def minimum(a, b, *args, **kw):
        if _has_sym(a, b): return _umin(a, b)
        return _orig["minimum"](a, b, *args, **kw)
    def nan_to_num(x, copy=True, nan=0.0, posinf=None, neginf=None):
        if _has_sym(x):
            def f(e):
                if isinstance(e, Sym): return e
                if isinstance(e, float):
                    if e != e: return nan
                    if e == float("inf"): return posinf if posinf is not None else 1.7976931348623157e308
                    if e == float("-inf"): return neginf if neginf is not None else -1.7976931348623157e308
                return e
            v = getattr(x, "values", x)
            return np.frompyfunc(f, 1, 1)(np.asarray(v, dtype=object))
        return _orig["nan_to_num"](x, copy=copy, nan=nan, posinf=posinf, neginf=neginf)
    def isclose(a, b, rtol=1e-05, atol=1e-08, equal_nan=False):
        if _has_sym(a, b):
            def f(x, y):
                if isinstance(x, Sym) or isinstance(y, Sym):
                    return bool(abs(x - y) <= atol + rtol * abs(y))
                return bool(_orig["isclose"](x, y, rtol, atol, equal_nan))
            return np.frompyfunc(f, 2, 1)(getattr(a, "values", a), getattr(b, "values", b)).astype(bool)
        return _orig["isclose"](a, b, rtol=rtol, atol=atol, equal_nan=equal_nan)
    def quantile(a, q, axis=None, **kw):
        if _has_sym(a):
            v = list(np.asarray(getattr(a, "values", a), dtype=object).ravel())
            n = len(v)
            # sorting network (bubble) with merged min/max
            for i in range(n):
                for j in range(n - 1 - i):
                    lo, hi = _mk_min(v[j], v[j + 1]), _mk_max(v[j], v[j + 1])
                    v[j], v[j + 1] = lo, hi
            pos = q * (n - 1)
            k = int(math.floor(pos)); g = pos - k
            if g == 0 or k + 1 >= n: return v[min(k, n - 1)]
            return v[k] + (v[k + 1] - v[k]) * g
        return _orig["quantile"](a, q, axis=axis, **kw)
    class UProxy:
        def __init__(self, f, orig): self._f = f; self._o = orig
        def __call__(self, *a, **k): return self._f(*a, **k)
        def __getattr__(self, n): return getattr(self._o, n)
    numpy.maximum = UProxy(maximum, _orig["maximum"]); numpy.minimum = UProxy(minimum, _orig["minimum"])
    numpy.nan_to_num = nan_to_num; numpy.isclose = isclose; numpy.quantile = quantile
