import os, logging, warnings
import numpy as np, pandas as pd
from elexmodel.client import ModelClient
logging.disable(logging.CRITICAL)
config = {"E": [{"office": "G", "states": ["AA"], "geographic_unit_types": ["county"], "historical_election": [],
                 "features": [], "aggregates": ["postal_code", "county_fips", "unit"], "fixed_effect": []}]}
import sys
NR, alpha = int(sys.argv[1]), float(sys.argv[2]); pim = sys.argv[3] if len(sys.argv)>3 else "nonparametric"
n = NR + 2
rng = np.random.default_rng(1)
fips = [f"c{i}" for i in range(n)]
base = rng.integers(500, 1500, n)
res = (base * rng.uniform(0.8, 1.3, n)).astype(int)
pre = pd.DataFrame({"postal_code": ["AA"]*n, "geographic_unit_fips": fips, "county_fips": fips, "baseline_turnout": base})
cur = pd.DataFrame({"postal_code": ["AA"]*n, "geographic_unit_fips": fips, "results_turnout": res, "percent_expected_vote": [100]*NR + [50]*2})
try:
    out = ModelClient().get_estimates(cur, "E", "G", ["turnout"], prediction_intervals=[alpha], percent_reporting_threshold=100,
        geographic_unit_type="county", raw_config=config, preprocessed_data=pre, save_output=[], pi_method=pim,
        aggregates=["postal_code", "unit"], model_parameters={"fit_margin_outlier_model": False, "fit_turnout_outlier_model": False})
    print("OK"); print(out["state_data"].T)
except Exception as e:
    import traceback; print("EXC", type(e).__name__, str(e)[:300]); traceback.print_exc(limit=-4)
