import sys, time, os
sys.path.insert(0, "/tmp/probe")
os.environ.setdefault("APP_ENV","local")
import logging
import numpy as np, pandas as pd, z3
import dse
from dse import Sym, SymB, Ctx, explore, symcol
from elexsolver.QuantileRegressionSolver import QuantileRegressionSolver as QRS
from elexmodel.client import ModelClient
logging.disable(logging.CRITICAL)
dse.install()

calls = []
def fit(self, x, y, taus=0.5, weights=None, lambda_=0.0, fit_intercept=True, regularize_intercept=False, n_feat_ignore_reg=0, normalize_weights=True):
    ctx = Ctx.cur
    k = len(calls); calls.append((x.shape, taus))
    self.coefficients = [np.array([Sym(ctx.fresh(f"coef{k}_{j}")) for j in range(x.shape[1])], dtype=object)]
def predict(self, x):
    return self.coefficients @ x.T
QRS.fit = fit; QRS.predict = predict

config = {"E": [{"office": "G", "states": ["AA"], "geographic_unit_types": ["county"], "historical_election": [],
                 "features": [], "aggregates": ["postal_code", "county_fips", "unit"], "fixed_effect": []}]}
NR, NN, NU = 4, 1, 1
def harness(ctx):
    calls.clear()
    n = NR + NN
    fips = [f"c{i}" for i in range(n)]
    base = symcol(ctx, "base", n, lo=1, integer=True)
    res = symcol(ctx, "res", n + NU, lo=0, integer=True)
    pre = pd.DataFrame({"postal_code": ["AA"] * n, "geographic_unit_fips": fips, "county_fips": fips,
                        "baseline_turnout": base})
    cur = pd.DataFrame({"postal_code": ["AA"] * (n + NU), "geographic_unit_fips": fips + [f"u{i}" for i in range(NU)],
                        "results_turnout": res, "percent_expected_vote": [100] * NR + [50] * NN + [100] * NU})
    mc = ModelClient()
    out = mc.get_estimates(cur, "E", "G", ["turnout"], prediction_intervals=[0.5], percent_reporting_threshold=100,
                           geographic_unit_type="county", raw_config=config, preprocessed_data=pre,
                           save_output=[], aggregates=["postal_code", "county_fips", "unit"],
                           model_parameters={"fit_margin_outlier_model": False, "fit_turnout_outlier_model": False})
    ud, sd = out["unit_data"], out["state_data"]
    props = []
    tot = sum(res[1:], res[0])
    props.append(("state_results_conserved", dse._term(sd["results_turnout"].iloc[0]) == tot.t))
    for _, r in ud.iterrows():
        for c in ["pred_turnout", "lower_0.5_turnout", "upper_0.5_turnout"]:
            props.append((f"floor_{r.geographic_unit_fips}_{c}", dse._term(r[c]) >= dse._term(r["results_turnout"])))
    props.append(("state_pred_ge_results", dse._term(sd["pred_turnout"].iloc[0]) >= dse._term(sd["results_turnout"].iloc[0])))
    props.append(("state_lower_ge_results", dse._term(sd["lower_0.5_turnout"].iloc[0]) >= dse._term(sd["results_turnout"].iloc[0])))
    harness.last = out
    return props
t = time.time()
r = explore(harness, max_paths=3000, timeout_ms=5000, verbose=False)
print(r["exc"]); print("\n".join(r["exc_samples"]))
print("paths", r["paths"], "forks", r["forks"], "checks", r["checks"], "solver_s", round(r["solver_s"], 2), "wall", round(time.time() - t, 2))
for x in r["results"][:10]: print(x[0], x[1])
print(harness.last["unit_data"].to_string()[:1500])
print(harness.last["state_data"].T)
