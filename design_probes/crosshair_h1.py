from typing import List, Optional, Tuple
import numpy as np
from elexmodel.models.BootstrapElectionModel import BootstrapElectionModel, BootstrapElectionModelException
from elexmodel.handlers.s3 import S3Util, S3VersionUtil

_M = BootstrapElectionModel({"features": ["baseline_normalized_margin"]})

def fmt_called(lhs: List[str], rhs: List[str], contests: List[str]) -> Optional[List[int]]:
    """
    pre: len(contests) <= 3 and len(lhs) <= 2 and len(rhs) <= 2
    pre: all(len(c) <= 2 for c in contests + lhs + rhs)
    pre: len(set(contests)) == len(contests)
    post: (__return__ is None) == (bool(set(lhs) & set(rhs)) or not set(lhs) <= set(contests) or not set(rhs) <= set(contests))
    post: __return__ is None or all(__return__[i] == (1 if contests[i] in lhs else 0 if contests[i] in rhs else -1) for i in range(len(contests)))
    """
    try:
        return [int(x) for x in _M._format_called_contests(lhs, rhs, contests, 1, 0, -1)]
    except BootstrapElectionModelException:
        return None

class FakeClient:
    def __init__(self, times, page):
        self.times = times; self.page = page
    def list_object_versions(self, Bucket=None, Prefix=None, KeyMarker=None, VersionIdMarker=None):
        start = 0 if VersionIdMarker is None else VersionIdMarker
        chunk = self.times[start:start + self.page]
        end = start + len(chunk)
        resp = {"IsTruncated": end < len(self.times)}
        if chunk:
            resp["Versions"] = [{"VersionId": start + i, "LastModified": t} for i, t in enumerate(chunk)]
        if resp["IsTruncated"]:
            resp["NextKeyMarker"] = "k"; resp["NextVersionIdMarker"] = end
        return resp

def list_versions(times: List[int], page: int, start: Optional[int], end: Optional[int]) -> List[int]:
    """
    pre: 1 <= page <= 3 and len(times) <= 4
    pre: all(times[i] >= times[i+1] for i in range(len(times)-1))
    post: __return__ == [i for i, t in enumerate(times) if (start is None or t >= start) and (end is None or t <= end)]
    """
    u = S3VersionUtil.__new__(S3VersionUtil)
    u.bucket_name = "b"; u.s3_client = FakeClient(times, page); u.start_date = start; u.end_date = end; u.tz = "UTC"
    return [v["VersionId"] for v in u.list_versions("p")]

def file_path(eid: str, office: str, gut: str) -> str:
    """
    pre: len(eid) <= 3 and len(office) <= 2 and len(gut) <= 2
    pre: not any(c.isspace() for c in eid + office + gut)
    post: not any(c.isspace() for c in __return__)
    """
    u = S3Util("b", client=object())
    return u.get_file_path("preprocessed", {"election_id": eid, "office": office, "geographic_unit_type": gut})
