"""Symbolic election builder: config dict, preprocessed (baseline) frame and live feed for
ModelClient.get_estimates.  Works with both the symbolic context (cells are Sym) and the
concrete replay context (cells are floats/ints).
"""
import numpy as np
import pandas as pd

from engine import sym
from engine.sym import AND

ELECTION = "2099-11-05_XX_G"


def make_config(office, states, features=(), aggregates=("postal_code", "county_fips", "district",
                                                        "county_classification", "unit"), fixed_effects=(),
                election=ELECTION, unit_types=("county", "county-district", "precinct", "precinct-district")):
    return {election: [{"office": office, "states": list(states), "geographic_unit_types": list(unit_types),
                        "historical_election": [], "features": list(features), "aggregates": list(aggregates),
                        "fixed_effect": list(fixed_effects),
                        "baseline_pointer": {"dem": "dem", "gop": "gop", "turnout": "turnout"}}]}


class Unit:
    """one geographic unit of the scenario.

    kind:
      'rep'    pinned: in baseline and feed, pev = 100 (concrete), eligible (turnout factor inside (lo, hi) assumed)
      'non'    pinned: in baseline and feed, pev symbolic in [0, thr) or given, not blocklisted, baseline > 0
      'unexp'  only in the feed
      'free'   everything explorer-chosen / symbolic (see Scenario.add_free)
    """

    def __init__(self, fips, state="AA", county=None, district=None, classification=None, kind="rep", pev=None,
                 in_baseline=True, in_feed=True, blocklisted=False, zero_baseline=False, base=None):
        self.fips, self.state, self.kind = fips, state, kind
        self.county = county if county is not None else fips
        self.district, self.classification = district, classification
        self.pev = pev
        self.in_baseline, self.in_feed = in_baseline, in_feed
        self.blocklisted, self.zero_baseline = blocklisted, zero_baseline
        self.base = base  # concrete baseline: int (turnout) or dict(turnout=, dem=, gop=); None -> symbolic
        self.vals = {}


class Scenario:
    def __init__(self, ctx, estimands=("turnout",), integer=True, threshold=100, tf_lo=0.5, tf_hi=2.0,
                 with_margin_cols=None, max_votes=10 ** 7):
        self.ctx = ctx
        self.estimands = list(estimands)
        self.integer = integer
        self.threshold = threshold
        self.tf_lo, self.tf_hi = tf_lo, tf_hi
        self.units = []
        self.margin = ("margin" in self.estimands) if with_margin_cols is None else with_margin_cols
        self.parties = []
        if self.margin or "dem" in self.estimands:
            self.parties.append("dem")
        if self.margin or "gop" in self.estimands:
            self.parties.append("gop")
        self.max_votes = max_votes

    def num(self, name, lo=None, hi=None):
        if self.integer:
            return self.ctx.int(name, lo, hi)
        return self.ctx.real(name, lo, hi)

    def add(self, u):
        c = self.ctx
        i = u.fips
        v = u.vals
        if u.in_baseline:
            if u.zero_baseline:
                v["baseline_turnout"] = 0
                for p in self.parties:
                    v["baseline_" + p] = 0
            elif u.base is not None:
                b = u.base if isinstance(u.base, dict) else {"turnout": u.base}
                v["baseline_turnout"] = b["turnout"]
                for p in self.parties:
                    v["baseline_" + p] = b[p] if p in b else (b["turnout"] * (2 if p == "dem" else 1)) // 4
            else:
                for p in self.parties:
                    v["baseline_" + p] = self.num("b%s_%s" % (p, i), 0 if len(self.parties) > 1 else 1, self.max_votes)
                if self.margin:
                    # two-party baseline: turnout >= dem + gop, dem + gop >= 1
                    v["baseline_turnout"] = self.num("bt_%s" % i, 1, self.max_votes)
                    c.assume(AND(v["baseline_dem"] + v["baseline_gop"] >= 1,
                                 v["baseline_turnout"] >= v["baseline_dem"] + v["baseline_gop"]))
                else:
                    v["baseline_turnout"] = self.num("bt_%s" % i, 1, self.max_votes)
                    for p in self.parties:
                        c.assume(v["baseline_" + p] <= v["baseline_turnout"])
        if u.in_feed:
            for p in self.parties:
                v["results_" + p] = self.num("r%s_%s" % (p, i), 0, self.max_votes)
            v["results_turnout"] = self.num("rt_%s" % i, 0, self.max_votes)
            for p in self.parties:
                c.assume(v["results_" + p] <= v["results_turnout"])
            if self.margin:
                c.assume(v["results_dem"] + v["results_gop"] <= v["results_turnout"])
            if u.pev is None:
                if u.kind == "rep":
                    v["pev"] = 100
                else:
                    v["pev"] = c.real("pev_%s" % i, 0, 120)
            else:
                v["pev"] = u.pev
            if u.kind == "rep":
                # eligible: turnout factor strictly inside the limits
                w_res = (v["results_dem"] + v["results_gop"]) if self.margin else v["results_turnout"]
                w_base = (v["baseline_dem"] + v["baseline_gop"]) if self.margin else v["baseline_turnout"]
                c.assume(AND(w_res > self.tf_lo * w_base, w_res < self.tf_hi * w_base))
            if u.kind == "non" and u.pev is None:
                c.assume(v["pev"] < self.threshold)
        self.units.append(u)
        return u

    def add_concrete(self, u):
        """unit whose baseline AND counted votes are concrete (u.base, u.res dicts); expected vote concrete"""
        v = u.vals
        v["results_turnout"] = u.res["turnout"]
        for p in self.parties:
            v["results_" + p] = u.res[p]
        if u.in_baseline:
            v["baseline_turnout"] = u.base["turnout"]
            for p in self.parties:
                v["baseline_" + p] = u.base[p]
        v["pev"] = u.pev if u.pev is not None else (100 if u.kind == "rep" else 50)
        self.units.append(u)
        return u

    # ------------------------------------------------------------------ frames
    def frames(self, extra_pre_cols=None):
        pre_rows, cur_rows = [], []
        for u in self.units:
            if u.in_baseline:
                row = {"postal_code": u.state, "geographic_unit_fips": u.fips, "county_fips": u.county}
                if u.district is not None:
                    row["district"] = u.district
                if u.classification is not None:
                    row["county_classification"] = u.classification
                for k, val in u.vals.items():
                    if k.startswith("baseline_"):
                        row[k] = val
                if extra_pre_cols:
                    row.update(extra_pre_cols(u))
                pre_rows.append(row)
            if u.in_feed:
                row = {"postal_code": u.state, "geographic_unit_fips": u.fips}
                for k, val in u.vals.items():
                    if k.startswith("results_"):
                        row[k] = val
                row["percent_expected_vote"] = u.vals["pev"]
                cur_rows.append(row)
        pre = pd.DataFrame(pre_rows)
        cur = pd.DataFrame(cur_rows)
        return objectify(pre), objectify(cur)

    def states(self):
        return sorted({u.state for u in self.units if u.in_baseline})


def objectify(df):
    """Columns that hold at least one Sym are object dtype; plain Python numbers in such a column would follow Python's number
    semantics (ZeroDivisionError) instead of numpy's (inf / nan).  Wrap them as Sym constants so that every cell of a mixed
    column behaves like a float64 cell."""
    from engine.sym import Sym, RV, is_num, is_special

    for c in df.columns:
        col = df[c]
        if col.dtype != object:
            continue
        vals = col.tolist()
        if not any(isinstance(v, Sym) for v in vals):
            continue
        if all(isinstance(v, Sym) or (is_num(v)) for v in vals):
            new = np.empty(len(vals), dtype=object)
            new[:] = [v if isinstance(v, Sym) or is_special(v) else Sym(RV(v)) for v in vals]
            df[c] = new
    return df


def cell_sum(cells, start=0):
    s = start
    for c in cells:
        s = s + c
    return s


# concrete baseline profiles (previous-election turnout per unit); values are part of the stated bounds
PROFILES = {
    "generic": [310, 520, 730, 1100, 1300, 1700, 1900, 2300, 2900, 3100, 3700, 4100, 4300, 4700, 5300, 5900],
    "equal": [1000] * 16,
    "dominant": [900000, 12, 25, 40, 7, 19, 33, 51, 64, 8, 15, 22, 29, 36, 43, 57],
    "balanced": [5000000, 1, 1, 1, 5000006, 2, 1, 3, 1, 2, 1, 1, 2, 1, 1, 1],
    "extreme": [1, 5000000, 3000000, 2, 2000000, 1, 3, 2, 1, 4, 2, 1, 3, 2, 1, 2],
}


def profile(name, n, offset=0):
    p = PROFILES[name]
    return [p[(i + offset) % len(p)] for i in range(n)]
