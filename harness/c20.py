"""C20 - a failed or inaccurate quantile-regression solve is retried, not fatal."""
import warnings

import numpy as np

from engine import sym, stubs
from engine.sym import AEQ, Sym
from . import pipeline as P

ID = "C20"
ENCODED = [
    "elexmodel.models.ConformalElectionModel:ConformalElectionModel.fit_model",
    "elexmodel.models.ConformalElectionModel:ConformalElectionModel.get_unit_predictions",
    "elexmodel.models.ConformalElectionModel:ConformalElectionModel.get_unit_prediction_interval_bounds",
] + P.ENCODED_PIPELINE
STUBS = P.STUBS_PIPELINE + [
    "fault injection: the k-th quantile solve inside QuantileRegressionSolver.fit (coefficient vectors of the quantiles of the same call solved before it stay appended, as in the real solver) raises cvxpy.error.SolverError, or issues a UserWarning "
    "attributed to module cvxpy.* (the repository's own warnings.filterwarnings('error', ...) line turns it into an exception)",
    P.CUT_STUB_NOTE]
ASSUMES = P.ASSUMES_PIPELINE + ["boot_sigma modelled as a deterministic function of its data here (its seeding is C12's subject)",
                                "the retry's result equals the first attempt's would-be result: the regression optimum is "
                                "invariant under rescaling of the weights, so the stub's UF ignores normalize_weights"]
OUTSIDE = P.OUTSIDE_PIPELINE + ["two consecutive failures of the same fit (the retry itself failing)"]
BOUNDS = {"quick": "NP (4 reporting, 1-2 nonreporting, alpha 0.5) and GA (7 reporting, alpha 0.7): every position of the failing "
                   "fit among the fits of a run with 1 estimand x 1 level (3 fits) and 2 estimands x 1 level (6 fits), 2 failure kinds; "
                   "lambda_ in {0, 1}",
          "thorough": "adds 1 estimand x 2 levels (5 fits), 2 estimands x 2 levels, features present"}
OPTS = {"quick": dict(case_timeout_s=600, solver_timeout_ms=30000), "thorough": dict(case_timeout_s=1800, solver_timeout_ms=60000)}


def cases(tier):
    out = []
    confs = [("nonparametric", 4, [0.5], ["turnout"], 3), ("gaussian", 7, [0.7], ["turnout"], 3),
             ("nonparametric", 4, [0.5], ["dem", "turnout"], 6)]
    if tier == "thorough":
        confs += [("nonparametric", 6, [0.5, 0.7], ["turnout"], 5), ("gaussian", 7, [0.7, 0.9], ["turnout"], 5),
                  ("gaussian", 7, [0.7], ["dem", "turnout"], 6), ("nonparametric", 6, [0.5, 0.7], ["dem", "turnout"], 10)]
    for pi, nrep, alphas, ests, nfits in confs:
        for k in range(nfits):
            for kind in ("solver_error", "warning"):
                for lam in ((0, 1) if (k == 0 or tier == "thorough") else (0,)):
                    out.append(dict(name="%s_%s_a%d_fit%d_%s_lam%s" % (pi[:2], "+".join(ests), len(alphas), k, kind, lam), pi=pi,
                                    alphas=alphas, estimands=ests, units=P.standard_units(nrep, 1, [P.U("c1_x0", "unexp")]),
                                    fail_at=k, fail_kind=kind, model_parameters={"lambda_": lam}, cut_calibration=True, boot_sigma_deterministic=True,
                                    nfits=nfits, weight=nrep))
    return out


def make_fail(case, log):
    import cvxpy

    def fail(idx, rec):
        # the retry is a new call: never fail it (index shifts by one after the failure)
        if log.get("failed_at") is None and idx == case["fail_at"]:
            log["failed_at"] = idx
            if case["fail_kind"] == "solver_error":
                return cvxpy.error.SolverError("injected: solver failed")
            return UserWarning("injected: Solution may be inaccurate")
        return None

    return fail


KEYS = ("taus", "lambda_", "fit_intercept", "regularize_intercept", "n_feat_ignore_reg")


def same_cells(a, b):
    a = np.asarray(getattr(a, "values", a), dtype=object).ravel()
    b = np.asarray(getattr(b, "values", b), dtype=object).ravel()
    if a.shape != b.shape:
        return False
    conds = [AEQ(x, y) for x, y in zip(a, b)]
    return sym.AND(*conds) if any(isinstance(c, sym.SymBool) for c in conds) else all(conds)


def run(ctx, case):
    log = {}
    # fault-free reference run first, then the faulty run, in the same path (same symbolic inputs)
    sc = P.build(ctx, case)
    frames = sc.frames()
    ref = P.run_client(ctx, case, sc=sc, frames=(frames[0].copy(), frames[1].copy()))
    flt = P.run_client(ctx, case, sc=sc, frames=(frames[0].copy(), frames[1].copy()), qr_fail=make_fail(case, log))
    obl = []
    calls = flt.qr.calls
    obl.append(("the injected fault was reached (solve #%d exists)" % case["fail_at"], log.get("failed_at") is not None))
    # faults are indexed by quantile solves (one per fit call in the unchanged tree; a fit of several quantiles fails at any of them,
    # leaving the coefficient vectors of the quantiles solved before behind, as the real solver does)
    n_solves = sum(1 if isinstance(c_["taus"], float) else len(list(c_["taus"])) for c_ in ref.qr.calls)
    obl.append(("fault-free run solves the expected number of quantile regressions", n_solves == case["nfits"]))
    k = next((i for i, c_ in enumerate(calls) if c_.get("failed")), None)
    if k is not None:
        failed = calls[k]
        if failed.get("warning_not_raised"):
            obl.append(("an inaccuracy warning from cvxpy is turned into a retry (warning filter active)", False))
        else:
            obl.append(("a retry call follows the failed fit", len(calls) == len(ref.qr.calls) + 1))
            if len(calls) > k + 1:
                retry = calls[k + 1]
                obl.append(("retry disables weight normalisation", retry["normalize_weights"] is False))
                for key in KEYS:
                    obl.append(("retry keeps %s" % key, _eq(retry[key], failed[key])))
                for key in ("x", "y", "weights"):
                    obl.append(("retry keeps %s" % key, same_cells(retry[key], failed[key])))
        # the failure must not leak into the other fits of the run: every fit that is not the retry is requested exactly as in
        # the fault-free run (in particular with weight normalisation still on)
        for i, rc in enumerate(ref.qr.calls):
            j = i if i <= k else i + 1
            if j >= len(calls):
                continue
            fc = calls[j]
            obl.append(("fit #%d (not the retry) is requested with the same normalize_weights as in the fault-free run" % i,
                        fc.get("normalize_weights") == rc.get("normalize_weights")))
            for key in KEYS:
                obl.append(("fit #%d (not the retry) keeps %s of the fault-free run" % (i, key), _eq(fc.get(key), rc.get(key))))
    # same tables as the fault-free run
    a, b = P.tables_out(ref.res), P.tables_out(flt.res)
    obl.append(("same set of tables", sorted(a) == sorted(b)))
    for t in a:
        if t not in b:
            continue
        obl.append(("table %s same shape" % t, a[t].shape == b[t].shape and list(a[t].columns) == list(b[t].columns)))
        if a[t].shape != b[t].shape:
            continue
        for c in a[t].columns:
            for i, (x, y) in enumerate(zip(a[t][c].tolist(), b[t][c].tolist())):
                if isinstance(x, str) or isinstance(y, str):
                    obl.append(("%s.%s[%d] equal" % (t, c, i), x == y))
                else:
                    obl.append(("%s.%s[%d] equal to the fault-free run" % (t, c, i), AEQ(x, y)))
    return obl, {"faulty": b}


def _eq(a, b):
    if isinstance(a, (list, tuple, np.ndarray)) or isinstance(b, (list, tuple, np.ndarray)):
        return list(np.atleast_1d(a)) == list(np.atleast_1d(b))
    return a == b


def signature(case, entry):
    return "%s|%s|%s|%s" % (case["pi"], case["fail_kind"], entry["kind"], entry["name"])
