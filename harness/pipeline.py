"""Shared pipeline harness: the real ModelClient.get_estimates on a symbolic election.

A case lists its units explicitly (structure is enumerated by the case generator, values are
symbolic).  Unit spec: dict(fips, kind, state='AA', county=None, district=None, cls=None, base=int|None, pev=None)

kinds
  rep      baseline + feed, 100% expected vote, eligible (turnout factor strictly inside limits: assumed)
  non      baseline + feed, expected vote symbolic below the threshold
  unexp    feed only (county / district parsed from the id)
  block    baseline + feed, on the unit blocklist, expected vote symbolic in [0, 120]
  zero     baseline (zero baseline turnout) + feed, expected vote symbolic
  strange  baseline + feed, 100% expected vote, turnout factor outside the limits (assumed)
  missing  baseline only (no row in the feed)
  free     baseline + feed, expected vote and counts unconstrained (forks on threshold / limits)
  partial  baseline + feed, but only the turnout count has arrived (other estimands are null in the feed)
"""
import numpy as np
import pandas as pd

from engine import sym, stubs
from engine.sym import AND, OR, Sym
import scenario as S

ENCODED_PIPELINE = [
    "elexmodel.client:ModelClient.get_estimates",
    "elexmodel.client:ModelClient.get_aggregate_list",
    "elexmodel.handlers.data.CombinedData:CombinedDataHandler.__init__",
    "elexmodel.handlers.data.CombinedData:CombinedDataHandler.get_units",
    "elexmodel.handlers.data.CombinedData:CombinedDataHandler._get_unexpected_units",
    "elexmodel.handlers.data.CombinedData:CombinedDataHandler._get_non_modeled_units",
    "elexmodel.handlers.data.Estimandizer:Estimandizer.add_estimand_results",
    "elexmodel.handlers.data.Estimandizer:Estimandizer.add_estimand_baselines",
    "elexmodel.handlers.data.Estimandizer:Estimandizer.add_turnout_factor",
    "elexmodel.handlers.data.Featurizer:Featurizer.prepare_data",
    "elexmodel.models.BaseElectionModel:BaseElectionModel._get_reporting_aggregate_votes",
    "elexmodel.models.BaseElectionModel:BaseElectionModel.get_aggregate_predictions",
    "elexmodel.models.ConformalElectionModel:ConformalElectionModel.fit_model",
    "elexmodel.models.ConformalElectionModel:ConformalElectionModel.get_unit_predictions",
    "elexmodel.models.ConformalElectionModel:ConformalElectionModel.get_unit_prediction_interval_bounds",
    "elexmodel.models.NonparametricElectionModel:NonparametricElectionModel.get_unit_prediction_intervals",
    "elexmodel.models.NonparametricElectionModel:NonparametricElectionModel._compute_population_correction",
    "elexmodel.models.NonparametricElectionModel:NonparametricElectionModel.get_aggregate_prediction_intervals",
    "elexmodel.models.GaussianElectionModel:GaussianElectionModel.get_unit_prediction_intervals",
    "elexmodel.models.GaussianElectionModel:GaussianElectionModel.get_aggregate_prediction_intervals",
    "elexmodel.distributions.GaussianModel:GaussianModel.fit",
    "elexmodel.distributions.GaussianModel:GaussianModel._fit",
    "elexmodel.utils.math_utils:weighted_median",
    "elexmodel.utils.math_utils:compute_inflate",
    "elexmodel.handlers.data.ModelResults:ModelResultsHandler.add_unit_predictions",
    "elexmodel.handlers.data.ModelResults:ModelResultsHandler.add_unit_intervals",
    "elexmodel.handlers.data.ModelResults:ModelResultsHandler.add_agg_predictions",
    "elexmodel.handlers.data.ModelResults:ModelResultsHandler.process_final_results",
]
STUBS_PIPELINE = [
    "elexsolver QuantileRegressionSolver.fit: bound against the real signature, coefficients = uninterpreted functions "
    "of (x, y, weights, tau, lambda_, fit_intercept); predict: real formula coef @ x.T",
    "scipy.stats.bootstrap as used by math_utils.boot_sigma: arbitrary positive value (fresh per call when unseeded)",
    "S3 client: recording fake",
]
ASSUMES_PIPELINE = [
    "vote counts are integers in [0, 1e7]; previous-election (baseline) counts are the concrete profile named in the case",
    "pinned reporting units are eligible (turnout factor strictly between the limits) and at 100% expected vote",
    "float64 arithmetic modelled as exact real arithmetic (shadow replay on floats validates one model per path)",
]
OUTSIDE_PIPELINE = [
    "elections larger than the case bounds; baseline values other than the listed profiles",
    "outlier-model exclusions (need > 20 reporting units and an LP solve)",
    "numerical behaviour of HiGHS / Clarabel / scipy.stats.bootstrap (stubbed by contract)",
]

LAST_S3 = None
MIN_REP = {"nonparametric": {0.5: 4, 0.7: 6}, "gaussian": {0.5: 7, 0.7: 7, 0.9: 7}, "bootstrap": {0.5: 10, 0.7: 10, 0.9: 10}}


def U(fips, kind, **kw):
    d = dict(fips=fips, kind=kind)
    d.update(kw)
    return d


def standard_units(nrep, nnon, extra=(), two_counties=True, profile="generic", district=False, cls=False):
    prof = S.profile(profile, nrep + nnon + len(extra))
    us = []
    k = 0
    for i in range(nrep):
        us.append(U("r%d" % i, "rep", county=("c1" if (not two_counties or i % 2 == 0) else "c2"), base=prof[k]))
        k += 1
    for i in range(nnon):
        us.append(U("n%d" % i, "non", county=("c2" if (two_counties and i % 2 == 0) else "c1"), base=prof[k]))
        k += 1
    for e in extra:
        e = dict(e)
        if e["kind"] not in ("unexp", "zero") and "base" not in e:
            e["base"] = prof[k]
        k += 1
        us.append(e)
    for j, u in enumerate(us):
        if district and "district" not in u and u["kind"] != "unexp":
            u["district"] = "d1" if j % 3 else "d2"
        if cls and "cls" not in u and u["kind"] != "unexp":
            u["cls"] = "k1" if j % 2 else "k2"
    return us


def build(ctx, case):
    est = case.get("estimands", ["turnout"])
    sc = S.Scenario(ctx, estimands=est, integer=case.get("integer", True), threshold=case.get("threshold", 100),
                    tf_lo=case.get("tf_lo", 0.5), tf_hi=case.get("tf_hi", 2.0))
    for spec in case["units"]:
        kind = spec["kind"]
        u = S.Unit(spec["fips"], state=spec.get("state", "AA"), county=spec.get("county"), district=spec.get("district"),
                   classification=spec.get("cls"), kind=kind,
                   pev=spec.get("pev", 100 if kind == "strange" else None),
                   in_baseline=kind != "unexp", in_feed=kind != "missing", blocklisted=kind == "block",
                   zero_baseline=kind == "zero", base=spec.get("base"))
        if kind == "strange":
            u.kind = "strange"
        sc.add(u)
        v = u.vals
        if kind == "partial":
            # in baseline and feed, but the feed has no value yet for every estimand except turnout
            for k_ in list(v):
                if k_.startswith("results_") and k_ != "results_turnout":
                    v[k_] = float("nan")
        if kind == "strange":
            # pev = 100, turnout factor outside the limits
            wr, wb = weights_of(sc, v)
            ctx.assume(OR(wr <= sc.tf_lo * wb, wr >= sc.tf_hi * wb))
    return sc


def weights_of(sc, v):
    if sc.margin:
        return v["results_dem"] + v["results_gop"], v["baseline_dem"] + v["baseline_gop"]
    return v["results_turnout"], v["baseline_turnout"]


class Run:
    pass


class CalibrationCut:
    """Cut for properties that do not depend on the calibration statistics: the two sort-based statistics
    (NonparametricElectionModel._compute_population_correction, math_utils.weighted_median) return an
    uninterpreted function of their inputs instead of forking over all orderings of the calibration scores."""

    def install(self):
        from elexmodel.models.NonparametricElectionModel import NonparametricElectionModel as NP
        from elexmodel.utils import math_utils

        self.saved = (NP._compute_population_correction, math_utils.weighted_median)
        n = [0]

        def pop_corr(self_, conformalization_data, scores, correction_quantile, estimand):
            n[0] += 1
            w = conformalization_data["last_election_results_%s" % estimand]
            args = stubs.cells(scores, w) + [sym.RV(float(correction_quantile))]
            return stubs.stub_values(sym.cur(), "POPCORR_%d" % len(scores), args, 1, label="popcorr%d" % n[0])[0]

        def wmedian(x, weights):
            n[0] += 1
            args = stubs.cells(x, weights)
            return stubs.stub_values(sym.cur(), "WMED_%d" % len(x), args, 1, label="wmedian%d" % n[0])[0]

        NP._compute_population_correction = pop_corr
        math_utils.weighted_median = wmedian
        return self

    def uninstall(self):
        from elexmodel.models.NonparametricElectionModel import NonparametricElectionModel as NP
        from elexmodel.utils import math_utils

        NP._compute_population_correction, math_utils.weighted_median = self.saved


CUT_STUB_NOTE = ("cut: _compute_population_correction and weighted_median (sort-based calibration statistics, subject of "
                 "C04 / C15) replaced by uninterpreted functions of their inputs")


def run_client(ctx, case, sc=None, qr_fail=None, qr_mode="uf", client=None, extra_kwargs=None, frames=None,
               real_qr_in_replay=False, config=None, keep_s3=False):
    """run the real client; returns Run(res | exc, sc, qr, s3, client)"""
    from elexmodel.client import ModelClient

    sc = sc or build(ctx, case)
    pre, cur = frames if frames is not None else sc.frames()
    office = case.get("office", "G")
    aggregates = case.get("aggregates", ["postal_code", "county_fips", "unit"])
    if config is None:
        config = S.make_config(office, sc.states() or ["AA"], features=case.get("config_features", []),
                               fixed_effects=case.get("config_fixed_effects", []))
    out_config = config
    qr = stubs.QRStub(mode=qr_mode, fail=qr_fail, real_in_replay=real_qr_in_replay).install()
    bs = stubs.BootSigmaStub(force_deterministic=case.get("boot_sigma_deterministic", False)).install()
    s3 = stubs.FakeS3().install()
    global LAST_S3
    LAST_S3 = s3
    cut = CalibrationCut().install() if case.get("cut_calibration") else None
    out = Run()
    out.sc, out.qr, out.s3, out.exc, out.res = sc, qr, s3, None, None
    out.config = out_config
    mp = {"fit_margin_outlier_model": False, "fit_turnout_outlier_model": False}
    mp.update(case.get("model_parameters", {}))
    blocked = [u.fips for u in sc.units if u.blocklisted]
    if blocked:
        mp["unit_blocklist"] = blocked
    if case.get("tf_lo") is not None:
        mp["turnout_factor_lower"] = case["tf_lo"]
    if case.get("tf_hi") is not None:
        mp["turnout_factor_upper"] = case["tf_hi"]
    kw = dict(pi_method=case.get("pi", "nonparametric"), save_output=case.get("save_output", []), aggregates=aggregates,
              model_parameters=mp, handle_unreporting=case.get("handle_unreporting", "drop"))
    if case.get("omit_model_parameters"):
        # the caller leaves model_parameters out (the client's own default is used; <= 20 units: the outlier models do not run)
        del kw["model_parameters"]
    for k in ("features", "fixed_effects", "lhs_called_contests", "rhs_called_contests", "stop_model_call"):
        if k in case:
            kw[k] = case[k]
    if extra_kwargs:
        kw.update(extra_kwargs)
    try:
        mc = client or ModelClient()
        out.client = mc
        out.res = mc.get_estimates(cur, S.ELECTION, office, case.get("estimands", ["turnout"]),
                                   prediction_intervals=case.get("alphas", [0.5]),
                                   percent_reporting_threshold=case.get("threshold", 100),
                                   geographic_unit_type=case.get("unit_type", "county"), raw_config=config,
                                   preprocessed_data=pre, **kw)
    finally:
        qr.uninstall()
        bs.uninstall()
        s3.uninstall()
        if cut:
            cut.uninstall()
    out.qr_coefs = [c.get("coefs", [None])[0] for c in qr.calls]
    return out


# --------------------------------------------------------------------- oracle helpers
def county_of(u, unit_type="county"):
    if u.in_baseline:
        return u.county
    parts = u.fips.split("_")
    return parts[1] if "district" in unit_type else parts[0]


def district_of(u):
    if u.in_baseline:
        return u.district
    return u.fips.split("_")[0]


def group_key(u, level, unit_type="county"):
    """value of the aggregate column `level` the unit is attributable to (None = cannot be attributed)"""
    if level == "postal_code":
        return u.state
    if level == "county_fips":
        return county_of(u, unit_type)
    if level == "district":
        return district_of(u)
    if level == "county_classification":
        return u.classification if u.in_baseline else None
    raise KeyError(level)


def numeric_part(df):
    keep = [c for c in df.columns if c.startswith(("pred_", "lower_", "upper_", "results_", "reporting"))]
    idc = [c for c in ("geographic_unit_fips", "postal_code", "county_fips", "district", "county_classification",
                       "unit_category") if c in df.columns]
    return df[idc + keep]


def tables_out(res):
    return {k: numeric_part(v) for k, v in res.items() if isinstance(v, pd.DataFrame)}


def whole(v):
    if isinstance(v, Sym):
        return sym.is_int_valued(v)
    return bool(float(v) == round(float(v)))


def csum(cells):
    s = 0
    for c in cells:
        s = s + c
    return s
