"""C02 - every aggregate equals the sum of its units; levels agree (NP / GA; BS clause in c02 bootstrap cases)."""
import pandas as pd

from engine import sym
from engine.sym import AEQ
from . import pipeline as P
from . import c01

ID = "C02"
ENCODED = P.ENCODED_PIPELINE
STUBS = P.STUBS_PIPELINE + [P.CUT_STUB_NOTE]
ASSUMES = P.ASSUMES_PIPELINE
OUTSIDE = P.OUTSIDE_PIPELINE + ["values of the gaussian aggregate bounds (C15); here only their row alignment via C03/C15"]
BOUNDS = c01.BOUNDS
OPTS = c01.OPTS


def cases(tier):
    # (the partial-null cases of C01 have NaN unit values by construction: a count that has not arrived has no prediction)
    return [c for c in c01.cases(tier) if "partial_null" not in c["name"]]


def run_bs(ctx, case):
    """bootstrap: group turnout = sum of unit turnouts; group margin * group turnout = sum of unit margins (no race calls)"""
    from . import bs as BS

    r = BS.run_bs_client(ctx, case)
    sc, res = r.sc, r.res
    cats = {u.fips: c01.classify(sc, u, case) for u in sc.units}
    ud = res["unit_data"].set_index("geographic_unit_fips")
    obl = []
    for table in c01.LEVELS:
        if table not in res:
            continue
        lcols = c01.level_cols(case, table)
        tab = res[table]
        groups = c01.expected_groups(sc, case, lcols, cats)
        keys = [tuple(k) for k in tab[lcols].itertuples(index=False, name=None)]
        obl.append(("%s has exactly the expected groups" % table, sorted(keys) == sorted(groups)))
        for i, key in enumerate(keys):
            g = groups.get(key)
            if g is None:
                continue
            ids = sorted(u.fips for u in g["counted"])
            pt, pm = tab["pred_turnout"].iloc[i], tab["pred_margin"].iloc[i]
            if sym.is_special(pt) or sym.is_special(pm):
                obl.append(("%s %s: prediction is a number" % (table, "/".join(key)), False))
                continue
            obl.append(("%s %s: predicted turnout = sum of its units' predicted turnout" % (table, "/".join(key)),
                        AEQ(pt, P.csum(ud.loc[f, "pred_turnout"] for f in ids))))
            obl.append(("%s %s: predicted margin x predicted turnout = sum of its units' predicted margins" % (table, "/".join(key)),
                        AEQ(pm * pt, P.csum(ud.loc[f, "pred_margin"] for f in ids))))
    return obl, P.tables_out(res)


def run(ctx, case):
    if case["pi"] == "bootstrap":
        return run_bs(ctx, case)
    r = P.run_client(ctx, case)
    sc, res = r.sc, r.res
    policy = case.get("handle_unreporting", "drop")
    cats = {u.fips: c01.classify(sc, u, case) for u in sc.units}
    ud = res["unit_data"].set_index("geographic_unit_fips")
    obl = []
    alphas = case["alphas"]
    for est in case["estimands"]:
        cols = ["pred_%s" % est]
        if case["pi"] == "nonparametric":
            cols += ["%s_%s_%s" % (b, a, est) for a in alphas for b in ("lower", "upper")]
        tabs = {}
        for table in c01.LEVELS:
            if table not in res:
                continue
            lcols = c01.level_cols(case, table)
            tab = res[table]
            groups = c01.expected_groups(sc, case, lcols, cats)
            keys = [tuple(k) for k in tab[lcols].itertuples(index=False, name=None)]
            obl.append(("%s has exactly the expected groups" % table, sorted(keys) == sorted(groups)))
            for i, key in enumerate(keys):
                g = groups.get(key)
                if g is None:
                    continue
                non_ids = {u.fips for u in g["non"]}
                for c in cols:
                    # spec computed from the RETURNED unit table: counted votes of everything that is not a
                    # nonreporting unit + the unit-level value of the nonreporting units of the group
                    want = P.csum(c01.live(u, est, policy) for u in g["counted"] if u.fips not in non_ids)
                    want = want + P.csum(ud.loc[f, c] for f in sorted(non_ids))
                    obl.append(("%s %s %s = counted + sum of unit values" % (table, "/".join(key), c),
                                AEQ(tab[c].iloc[i], want)))
            tabs[table] = tab
        # levels agree: finer tables sum to the state table; state table sums to the unit table
        st = res.get("state_data")
        if st is not None:
            for c in cols:
                tot_units = P.csum(ud[c].tolist())
                obl.append(("state table sums to unit table %s" % c, AEQ(P.csum(st[c].tolist()), tot_units)))
                scols = c01.level_cols(case, "state_data")
                for table in ("county_data", "district_data"):
                    if table in res:
                        ft = res[table]
                        for i in range(len(st)):
                            key = tuple(st[k].iloc[i] for k in scols)
                            rows = [j for j in range(len(ft)) if tuple(ft[k].iloc[j] for k in scols) == key]
                            obl.append(("%s sums to state row %s %s" % (table, "/".join(key), c),
                                        AEQ(P.csum(ft[c].iloc[j] for j in rows), st[c].iloc[i])))
    return obl, P.tables_out(res)


signature = c01.signature
