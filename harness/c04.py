"""C04 - nonparametric intervals are conformally calibrated.

calib cases: the real NonparametricElectionModel.get_unit_prediction_intervals (real split, real population correction, real
np.quantile semantics) on symbolic residuals / weights; the applied correction is observed and checked against the calibration
inequality; a symbolic truth of a nonreporting unit that conforms (score <= correction) lies inside the reported interval.
coverage cases: leave-one-out counting over a pool of n_cal + 1 exchangeable units (the probabilistic clause made countable).
"""
import math

import numpy as np
import pandas as pd

from engine import sym, stubs
from engine.sym import AND, OR, IMPLIES, GE, LE, GT, AEQ, Sym
from . import pipeline as P

ID = "C04"
ENCODED = ["elexmodel.models.NonparametricElectionModel:NonparametricElectionModel.get_unit_prediction_intervals",
           "elexmodel.models.NonparametricElectionModel:NonparametricElectionModel._compute_population_correction",
           "elexmodel.models.NonparametricElectionModel:NonparametricElectionModel._compute_conf_frac",
           "elexmodel.models.ConformalElectionModel:ConformalElectionModel.get_unit_prediction_interval_bounds",
           "elexmodel.models.ConformalElectionModel:ConformalElectionModel.fit_model",
           "elexmodel.handlers.data.Featurizer:Featurizer.prepare_data"]
STUBS = ["QuantileRegressionSolver.fit: coefficients are uninterpreted functions of the arguments actually passed (arbitrary lower / upper "
         "regression); pandas DataFrame.sample(random_state=seed) is the real (deterministic) shuffle"]
ASSUMES = ["residuals are arbitrary reals (ties allowed in the calib cases, distinct in the coverage cases), baselines are symbolic "
           "positive reals in the calib cases and equal in the coverage cases",
           "the step from the leave-one-out counting identity to 'probability >= alpha over exchangeable elections' is the textbook "
           "split-conformal argument and is NOT machine-checked"]
OUTSIDE = ["n_cal above the bound; alpha off the listed grid (alpha enters through float alpha*(1+1/n_cal) and numpy's interpolation, "
           "both concrete per case)", "feature sets other than none / two continuous features"]
BOUNDS = {"quick": "calib: (alpha, n) in {(0.5, 3..5), (0.6, 4..5)} i.e. n_cal = 2..4, robust on/off, 2 nonreporting units (also with frames whose row labels are not 0..m-1), no features and "
                   "2 (concrete) features; coverage: pools of n_cal + 1 = 3..4 units, alpha in {0.5, 0.6}",
          "thorough": "calib adds (0.5, 6), (0.7, 6) i.e. n_cal up to 5; coverage: pool of 5"}
OPTS = {"quick": dict(case_timeout_s=900, solver_timeout_ms=60000), "thorough": dict(case_timeout_s=3300, solver_timeout_ms=120000)}


def min_units(alpha):
    return max(math.ceil(-1 * (alpha + 1) / (alpha - 1)), 2)


def cases(tier):
    out = []
    grid = [(0.5, 3), (0.5, 4), (0.5, 5), (0.6, 4), (0.6, 5)]
    if tier == "thorough":
        grid += [(0.5, 6), (0.7, 6)]
    for alpha, n in grid:
        for robust in (False, True):
            out.append(dict(name="calib_a%s_n%d_%s" % (alpha, n, "robust" if robust else "plain"), kind="calib", alpha=alpha, n=n,
                            robust=robust, features=[], weight=n * n))
    # the frame of outstanding units keeps the row labels of the frame it was filtered from (not 0..m-1, not ascending): bounds are
    # paired with units by position
    for robust in (False, True):
        out.append(dict(name="calib_a0.5_n4_%s_oddindex" % ("robust" if robust else "plain"), kind="calib", alpha=0.5, n=4,
                        robust=robust, features=[], non_index=[7, 3], rep_index=[9, 1, 4, 0], weight=16))
    out.append(dict(name="calib_features_a0.5_n4", kind="calib", alpha=0.5, n=4, robust=False, features=["f1", "f2"], weight=8))
    out.append(dict(name="calib_features_a0.5_n5_robust", kind="calib", alpha=0.5, n=5, robust=True, features=["f1", "f2"], weight=8))
    for alpha, m in ((0.5, 2), (0.5, 3), (0.6, 3)) + (((0.5, 4), (0.7, 4)) if tier == "thorough" else ()):
        out.append(dict(name="coverage_a%s_pool%d" % (alpha, m + 1), kind="coverage", alpha=alpha, m=m, weight=30 * m))
    return out


def shuffle_order(n, seed=4191):
    return pd.DataFrame({"i": range(n)}).sample(frac=1, random_state=seed)["i"].tolist()


def col(vals):
    a = np.empty(len(vals), dtype=object)
    a[:] = vals
    if not any(isinstance(v, Sym) for v in vals):
        return a.astype(float)
    return a


def frames(ctx, n, nn, feats, resid, base, nres, nbase, fvals=None):
    est = "turnout"
    rep = pd.DataFrame({"postal_code": ["AA"] * n, "geographic_unit_fips": ["r%d" % i for i in range(n)],
                        "reporting": [1] * n, "unit_category": ["expected"] * n,
                        "residuals_%s" % est: col(resid), "last_election_results_%s" % est: col(base),
                        "results_%s" % est: [0.0] * n})
    non = pd.DataFrame({"postal_code": ["AA"] * nn, "geographic_unit_fips": ["n%d" % i for i in range(nn)],
                        "reporting": [0] * nn, "unit_category": ["expected"] * nn,
                        "last_election_results_%s" % est: col(nbase), "results_%s" % est: col(nres)})
    for f in feats:
        rep[f] = col(fvals[f][:n])
        non[f] = col(fvals[f][n:])
    return rep, non


class Observe:
    """observation only: records the correction the real code computes"""

    def __init__(self):
        self.pop, self.quant = [], []

    def install(self):
        from elexmodel.models.NonparametricElectionModel import NonparametricElectionModel as NP
        import numpy

        self.saved = (NP._compute_population_correction, numpy.quantile)
        o = self
        orig_pop, orig_q = self.saved

        def pop(self_, conformalization_data, scores, correction_quantile, estimand):
            r = orig_pop(self_, conformalization_data, scores, correction_quantile, estimand)
            o.pop.append(dict(value=r, q=correction_quantile, scores=list(np.asarray(scores, dtype=object))))
            return r

        def quant(a, q=None, **kw):
            r = orig_q(a, q=q, **kw)
            o.quant.append(dict(value=r, q=q))
            return r

        NP._compute_population_correction = pop
        numpy.quantile = quant
        return self

    def uninstall(self):
        from elexmodel.models.NonparametricElectionModel import NonparametricElectionModel as NP
        import numpy

        NP._compute_population_correction, numpy.quantile = self.saved


def run(ctx, case):
    return run_calib(ctx, case) if case["kind"] == "calib" else run_coverage(ctx, case)


def run_calib(ctx, case):
    from elexmodel.models.NonparametricElectionModel import NonparametricElectionModel as NP

    n, alpha, feats = case["n"], case["alpha"], case["features"]
    nn = 2
    resid = [ctx.real("resid_%d" % i, -1, 5) for i in range(n)]
    base = [ctx.real("base_%d" % i, 1, 10 ** 6) for i in range(n)]
    nbase = [1000.0, 2500.0]
    nres = [ctx.int("nres_%d" % i, 0, 10 ** 6) for i in range(nn)]
    # feature values are concrete (the regression is an uninterpreted function of them anyway)
    fvals = {f: [float((7 * i + 3 * k_) % 11 - 5) for i in range(n + nn)] for k_, f in enumerate(feats)}
    rep, non = frames(ctx, n, nn, feats, resid, base, nres, nbase, fvals)
    if case.get("non_index"):
        non.index = case["non_index"]
    if case.get("rep_index"):
        rep.index = case["rep_index"]
    m = NP({"features": feats, "robust": case["robust"]})
    m.n_train = n
    qr = stubs.QRStub(mode="uf").install()
    ob = Observe().install()
    try:
        pi = m.get_unit_prediction_intervals(rep, non, alpha, "turnout")
    finally:
        ob.uninstall()
        qr.uninstall()
    order = shuffle_order(n)
    cf = m._compute_conf_frac(n, alpha)
    train_rows = max(math.floor(n * cf), 1)
    cal = order[train_rows:]
    tr = order[:train_rows]
    n_cal = len(cal)
    q = alpha * (1 + 1 / n_cal)
    obl = []
    # the fits are made on the training rows only (calibration units are held out)
    calls = qr.calls
    obl.append(("two fits (lower, upper quantile) are made", len(calls) == 2))
    for ci, call in enumerate(calls[:2]):
        y = list(np.asarray(call["y"], dtype=object).ravel())
        obl.append(("fit %d uses exactly the training units, calibration units are held out" % ci,
                    len(y) == len(tr) and all(bool(T_eq(y[j], resid[tr[j]])) for j in range(min(len(y), len(tr))))))
    if len(calls) < 2:
        return obl, {}
    want_taus = [(1 - alpha) / 2, (1 + alpha) / 2]
    obl.append(("fits are at the (1-alpha)/2 and (1+alpha)/2 quantiles", [c["taus"] for c in calls[:2]] == want_taus))
    # un-widened bounds of calibration units and scores, recomputed independently from the recorded predictions
    conf = m.conformalization_data_unit
    if not feats:
        L, U = calls[0]["coefs"][0][0], calls[1]["coefs"][0][0]
        scores = [sym.smax(L - resid[i], resid[i] - U) for i in cal]
    else:
        # with features the predictions differ per unit: take the code's own bound columns but check they belong to the held-out rows
        scores = [sym.smax(a, b) for a, b in zip(conf["lower_bounds"].tolist(), conf["upper_bounds"].tolist())]
        obl.append(("calibration rows are the held-out rows", conf["geographic_unit_fips"].tolist() == ["r%d" % i for i in cal]))
    w = [base[i] for i in cal]
    W = P.csum(w)
    c = ob.pop[-1]["value"] if ob.pop else None
    applied_lower = m.nonreporting_lower_bounds
    obl.append(("the calibration quantile is alpha * (1 + 1 / n_cal)", bool(ob.pop) and abs(float(ob.pop[-1]["q"]) - q) < 1e-12))
    if c is None or sym.is_special(c):
        obl.append(("a finite correction exists", False))
        return obl, {}
    if case["robust"]:
        from engine.npmodel import sym_quantile

        unweighted = sym_quantile(scores, q) if any(isinstance(s_, Sym) for s_ in scores) else float(np.quantile(np.array(scores, dtype=float), q))
        c_applied = sym.smax(c, unweighted)
    else:
        c_applied = c
    covered_w = P.csum(sym.ite(s_ <= c_applied, wi, 0) if isinstance(s_ <= c_applied, sym.SymBool) else (wi if s_ <= c_applied else 0)
                       for s_, wi in zip(scores, w))
    obl.append(("baseline-weighted share of calibration units inside their widened interval exceeds alpha*(1+1/n_cal)",
                GT(covered_w, q * W)))
    # the bounds actually reported = (unadjusted bound -/+ the correction) un-normalised, floored at the counted votes, rounded
    outs = {}
    if feats:
        # with features the predictions differ per unit; the bound formula is asserted in the intercept-only cases
        return obl, outs
    lo_pred = qr_predict(calls[0], non, feats, m)
    hi_pred = qr_predict(calls[1], non, feats, m)
    for j in range(nn):
        b = nbase[j]
        want_lo = rnd(sym.smax((lo_pred[j] - c_applied) * b + b, nres[j]))
        want_hi = rnd(sym.smax((hi_pred[j] + c_applied) * b + b, nres[j]))
        got_lo, got_hi = np.asarray(pi.lower, dtype=object)[j], np.asarray(pi.upper, dtype=object)[j]
        if sym.is_special(got_lo) or sym.is_special(got_hi):
            obl.append(("nonreporting unit %d: finite bounds" % j, False))
            continue
        obl.append(("nonreporting unit %d: lower = round(max((bound - correction) * baseline + baseline, counted))" % j, AEQ(got_lo, want_lo)))
        obl.append(("nonreporting unit %d: upper = round(max((bound + correction) * baseline + baseline, counted))" % j, AEQ(got_hi, want_hi)))
        # a conforming truth is never lost by un-normalising, flooring and rounding
        t = ctx.int("truth_%d" % j, 0, 10 ** 7)
        rt = (t - b) / b
        score_t = sym.smax(lo_pred[j] - rt, rt - hi_pred[j])
        obl.append(("nonreporting unit %d: a true count >= counted whose score is <= the correction lies inside the reported interval" % j,
                    IMPLIES(AND(GE(t, nres[j]), LE(score_t, c_applied)), AND(LE(got_lo, t), GE(got_hi, t)))
                    if any(isinstance(x, Sym) for x in (t, score_t, got_lo, got_hi)) else
                    ((not (t >= nres[j] and score_t <= c_applied)) or (got_lo <= t <= got_hi))))
        outs["lower%d" % j], outs["upper%d" % j] = got_lo, got_hi
    return obl, outs


def T_eq(a, b):
    """cells passed on unchanged are the same z3 term"""
    if isinstance(a, Sym) and isinstance(b, Sym):
        return a.d is None and b.d is None and a.n.eq(b.n)
    if isinstance(a, Sym) or isinstance(b, Sym):
        return False
    return float(a) == float(b)


def qr_predict(call, non, feats, model):
    """prediction of the recorded fit for the nonreporting rows (intercept-only: the coefficient itself)"""
    coefs = call["coefs"][0]
    if not feats:
        return [coefs[0]] * len(non)
    # with features: use the code's own unadjusted bounds minus nothing -> recompute through the model's saved arrays is not
    # possible without the correction; fall back to the model's stored pre-correction values
    raise sym.Inconclusive("feature case handled separately")


def rnd(v):
    return v.rint() if isinstance(v, Sym) else float(np.round(v))


def run_coverage(ctx, case):
    """pool of m+1 units with distinct residuals and equal baselines; each in turn is the unit that has not reported yet (its true
    count is known to the harness), the other m are the calibration units, the training units are the same in every round."""
    from elexmodel.models.NonparametricElectionModel import NonparametricElectionModel as NP

    alpha, m_cal = case["alpha"], case["m"]
    # find n with n - train_rows(n) == m_cal
    model0 = NP({})
    n = None
    for cand in range(min_units(alpha), 40):
        cf = model0._compute_conf_frac(cand, alpha)
        if cand - max(math.floor(cand * cf), 1) == m_cal:
            n = cand
            break
    if n is None:
        raise sym.Abort("no n gives this calibration size")
    train_rows = n - m_cal
    B = 1000.0
    # true counts are whole numbers (rounding a bound can only lose a non-integer truth); residual = (count - baseline) / baseline
    truths = [ctx.int("pool_count_%d" % i, 0, 4000) for i in range(m_cal + 1)]
    pool = [(t - B) / B for t in truths]
    for i in range(m_cal + 1):
        for j in range(i):
            ctx.assume(sym.NOT(pool[i] == pool[j]) if isinstance(pool[i], Sym) else pool[i] != pool[j])
    train = [ctx.real("train_resid_%d" % i, -0.9, 3) for i in range(train_rows)]
    order = shuffle_order(n)
    covered = []
    qr = stubs.QRStub(mode="uf").install()
    try:
        for k in range(m_cal + 1):
            others = [pool[i] for i in range(m_cal + 1) if i != k]
            # place the training units at the positions the seeded shuffle sends to the front
            resid = [None] * n
            for pos, idx in enumerate(order):
                resid[idx] = train[pos] if pos < train_rows else others[pos - train_rows]
            truth = truths[k]
            rep, non = frames(ctx, n, 1, [], resid, [B] * n, [0], [B])
            mdl = NP({})
            mdl.n_train = n
            pi = mdl.get_unit_prediction_intervals(rep, non, alpha, "turnout")
            lo, hi = np.asarray(pi.lower, dtype=object)[0], np.asarray(pi.upper, dtype=object)[0]
            if sym.is_special(lo) or sym.is_special(hi):
                return [("round %d: finite interval" % k, False)], {}
            inside = AND(LE(lo, truth), GE(hi, truth))
            covered.append(sym.ite(inside, 1, 0) if isinstance(inside, sym.SymBool) else (1 if inside else 0))
    finally:
        qr.uninstall()
    total = P.csum(covered)
    obl = [("leave-one-out: at least alpha * (n_cal + 1) of the %d exchangeable units fall inside their interval" % (m_cal + 1),
            GE(total, alpha * (m_cal + 1)))]
    return obl, {"covered": total}


def signature(case, entry):
    return "%s|%s|%s|%s" % (case["kind"], "robust" if case.get("robust") else "plain", entry["kind"], entry["name"])
