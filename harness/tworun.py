"""helpers for self-composition harnesses (two executions of the real pipeline in one symbolic path)."""
import numpy as np
import pandas as pd

from engine import sym
from engine.sym import AEQ, Sym
from . import pipeline as P

KEYCOLS = ("postal_code", "geographic_unit_fips", "county_fips", "district", "county_classification")


def key_of(df, i):
    return tuple((c, df[c].iloc[i]) for c in KEYCOLS if c in df.columns)


def rows_by_key(df):
    return {key_of(df, i): i for i in range(len(df))}


def cell_equal(x, y):
    if isinstance(x, str) or isinstance(y, str) or x is None or y is None:
        return x == y
    if isinstance(x, (Sym,)) or isinstance(y, (Sym,)):
        if sym.is_special(x) or sym.is_special(y):
            return False
        return AEQ(x, y)
    try:
        if x != x and y != y:
            return True
    except Exception:
        pass
    return AEQ(x, y)


def compare_tables(a, b, label, skip_row=None, cols=None, only_cols=None):
    """obligations: table b equals table a cell by cell (rows matched on key columns).
    skip_row(key dict) -> True to leave a row out."""
    obl = []
    ka, kb = rows_by_key(a), rows_by_key(b)
    keys_a = [k for k in ka if not (skip_row and skip_row(dict(k)))]
    keys_b = [k for k in kb if not (skip_row and skip_row(dict(k)))]
    obl.append(("%s: same rows" % label, sorted(map(str, keys_a)) == sorted(map(str, keys_b))))
    common_cols = [c for c in a.columns if c in b.columns and c not in KEYCOLS]
    if only_cols is not None:
        common_cols = [c for c in common_cols if c in only_cols]
    if cols is None:
        obl.append(("%s: same columns" % label, list(a.columns) == list(b.columns)))
    for k in keys_a:
        if k not in kb:
            continue
        i, j = ka[k], kb[k]
        for c in common_cols:
            obl.append(("%s %s %s unchanged" % (label, "/".join(str(v) for _, v in k), c),
                        cell_equal(a[c].iloc[i], b[c].iloc[j])))
    return obl
