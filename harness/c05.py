"""C05 - with no covariates the model is uniform swing by the baseline-weighted median."""
import numpy as np

from engine import sym, stubs
from engine.sym import AND, OR, NOT, AEQ, Sym, IMPLIES
from . import pipeline as P

ID = "C05"
ENCODED = [
    "elexmodel.handlers.data.CombinedData:CombinedDataHandler.get_units",
    "elexmodel.handlers.data.Estimandizer:Estimandizer.add_estimand_baselines",
    "elexmodel.handlers.data.Featurizer:Featurizer.prepare_data",
    "elexmodel.handlers.data.Featurizer:Featurizer.generate_holdout_data",
    "elexmodel.models.ConformalElectionModel:ConformalElectionModel.get_unit_predictions",
    "elexmodel.models.ConformalElectionModel:ConformalElectionModel.fit_model",
    "elexmodel.client:ModelClient.get_estimates",
]
STUBS = ["elexsolver QuantileRegressionSolver.fit for intercept-only designs: the coefficient c is any value that satisfies the "
         "LP optimality condition of the weighted tau-quantile of the (y, weights) ACTUALLY PASSED by the code "
         "(sum_{y_i<c} w_i <= tau*W <= sum_{y_i<=c} w_i, c one of the y_i); in the concrete replay the real HiGHS solve runs",
         "scipy bootstrap / S3: as in the pipeline harness"]
ASSUMES = P.ASSUMES_PIPELINE + ["the weighted median is unique (no prefix of the sorted units has exactly half of the weight)"]
OUTSIDE = P.OUTSIDE_PIPELINE + ["more than 5 reporting / 2 nonreporting units"]
BOUNDS = {"quick": "4-5 reporting units (symbolic counts), 1-2 nonreporting, profiles generic/dominant/extreme/balanced, estimands turnout and dem+turnout; a blocklisted / zero-baseline nonreporting unit placed before the modelled nonreporting units, "
                   "NP and GA (the point prediction is shared)", "thorough": "adds 6 reporting units, profile equal"}
OPTS = {"quick": dict(case_timeout_s=900, solver_timeout_ms=30000), "thorough": dict(case_timeout_s=3000, solver_timeout_ms=60000)}


def cases(tier):
    out = []
    profs = ("generic", "dominant", "extreme", "balanced") if tier == "quick" else (
        "generic", "dominant", "extreme", "balanced", "equal")
    for prof in profs:
        for nrep, nnon in ((4, 1), (5, 2)) if tier == "quick" else ((4, 1), (5, 2), (6, 1)):
            for ests in (["turnout"], ["dem", "turnout"]):
                out.append(dict(name="np_%s_r%d_n%d_%s" % (prof, nrep, nnon, "+".join(ests)), pi="nonparametric", alphas=[0.5],
                                estimands=ests, units=P.standard_units(nrep, nnon, profile=prof), cut_calibration=True,
                                weight=nrep * 3 + len(ests)))
    # a nonreporting unit that is not modelled (blocklisted / zero baseline) sits BEFORE the modelled nonreporting units in the frames:
    # every modelled unit must still get its own prediction
    for kind_ in ("block", "zero"):
        us = P.standard_units(4, 2)
        extra = P.U("x0", kind_, county="c1", pev=40, **({"base": 900} if kind_ == "block" else {}))
        us = us[:4] + [extra] + us[4:]
        out.append(dict(name="np_generic_r4_%s_before_n2" % kind_, pi="nonparametric", alphas=[0.5], estimands=["turnout"], units=us,
                        cut_calibration=True, weight=15))
    # regularisation requested although there is nothing to regularise: the common factor is still the weighted median
    out.append(dict(name="np_generic_r4_n1_lambda5", pi="nonparametric", alphas=[0.5], estimands=["turnout"],
                    units=P.standard_units(4, 1), cut_calibration=True, model_parameters={"lambda_": 5.0}, weight=13))
    out.append(dict(name="ga_generic_r7_n1", pi="gaussian", alphas=[0.7], estimands=["turnout"],
                    units=P.standard_units(7, 1), cut_calibration=True, weight=20))
    return out


def run(ctx, case):
    sc = P.build(ctx, case)
    # the statement is about unique weighted medians: no prefix of the units (sorted by relative change) holds exactly half of the
    # weight, for every estimand.  Assumed up front, so that non-unique optima (where the real solver may legitimately pick another
    # optimum than the stub) are outside the explored space.
    for est in case["estimands"]:
        reps0 = [u for u in sc.units if u.kind == "rep"]
        b0 = {u.fips: u.vals["baseline_%s" % est] + 1 for u in reps0}
        ys = [(u.vals["results_%s" % est] - b0[u.fips]) / b0[u.fips] for u in reps0]
        ws = [b0[u.fips] for u in reps0]
        Wt = P.csum(ws)
        for yi in ys:
            cum = P.csum(sym.ite(y <= yi, w_, 0) if isinstance(y <= yi, sym.SymBool) else (w_ if y <= yi else 0) for y, w_ in zip(ys, ws))
            ctx.assume(sym.NOT(AEQ(cum * 2, Wt)))
    r = P.run_client(ctx, case, sc=sc, qr_mode="median", real_qr_in_replay=True)
    res = r.res
    ud = res["unit_data"].set_index("geographic_unit_fips")
    reps = [u for u in sc.units if u.kind == "rep"]
    nons = [u for u in sc.units if u.kind == "non"]
    obl = []
    fits_per_est = len(r.qr.calls) // len(case["estimands"])
    for ei, est in enumerate(case["estimands"]):
        call = r.qr.calls[ei * fits_per_est]  # the median fit of this estimand is the first fit made for it
        base = {u.fips: u.vals["baseline_%s" % est] + 1 for u in sc.units if u.in_baseline}
        # the real relative changes and weights, recomputed from the scenario (independent of what the code passes on)
        true_y = [(u.vals["results_%s" % est] - base[u.fips]) / base[u.fips] for u in reps]
        true_w = [base[u.fips] for u in reps]
        # the median contract of the stub holds for an unpenalised intercept only: whatever lambda_ is, the intercept-only fits must
        # not ask for the intercept to be regularised
        for fc in r.qr.calls[ei * fits_per_est:(ei + 1) * fits_per_est]:
            if np.asarray(fc["x"], dtype=object).shape[1] == 1:
                obl.append(("%s: intercept-only fit leaves the intercept unpenalised (lambda_=%s)" % (est, fc.get("lambda_")),
                            not fc.get("regularize_intercept", False)))
        # (b) m is the baseline-weighted median of the true relative changes
        m = r.qr_coefs[ei * fits_per_est][0]
        W = P.csum(true_w)
        below = P.csum(sym.ite(y < m, w, 0) if isinstance(y < m, sym.SymBool) else (w if y < m else 0) for y, w in zip(true_y, true_w))
        upto = P.csum(sym.ite(y <= m, w, 0) if isinstance(y <= m, sym.SymBool) else (w if y <= m else 0) for y, w in zip(true_y, true_w))
        ties = []
        for yi in true_y:
            cum = P.csum(sym.ite(y <= yi, w, 0) if isinstance(y <= yi, sym.SymBool) else (w if y <= yi else 0)
                         for y, w in zip(true_y, true_w))
            ties.append(AEQ(cum * 2, W))
        tie = OR(*ties) if any(isinstance(t, sym.SymBool) for t in ties) else any(ties)
        med = AND(sym.LT(below * 2, W), sym.GT(upto * 2, W))
        obl.append(("%s: common factor is the baseline-weighted median of the relative change (when unique)" % est,
                    OR(tie, med) if isinstance(tie, sym.SymBool) or isinstance(med, sym.SymBool) else (tie or med)))
        # (c) every nonreporting prediction = round(max((1+m)*baseline, counted))
        for u in nons:
            b = base[u.fips]
            want = round_cell(sym.smax((1 + m) * b, u.vals["results_%s" % est]))
            obl.append(("%s: prediction of %s = round(max((1+m)*baseline, counted))" % (est, u.fips),
                        AEQ(ud.loc[u.fips, "pred_%s" % est], want)))
    return obl, P.tables_out(res)


def round_cell(v):
    if isinstance(v, Sym):
        return v.rint()
    return float(np.round(v))


def signature(case, entry):
    return "%s|%s|%s" % (case["pi"], entry["kind"], entry["name"])
