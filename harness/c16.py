"""C16 - fitting and prediction design matrices are aligned and identifiable.

The categorical structure (which unit has which level) is explorer-enumerated (bounded exhaustive); the solver
quantifies over the continuous feature values (centring, per-state copies)."""
import numpy as np
import pandas as pd

from engine import sym, stubs
from engine.sym import AEQ, Sym
from . import pipeline as P

ID = "C16"
ENCODED = ["elexmodel.handlers.data.Featurizer:Featurizer.__init__", "elexmodel.handlers.data.Featurizer:Featurizer._expand_fixed_effects",
           "elexmodel.handlers.data.Featurizer:Featurizer._sort_features", "elexmodel.handlers.data.Featurizer:Featurizer.prepare_data",
           "elexmodel.handlers.data.Featurizer:Featurizer.filter_to_active_features",
           "elexmodel.handlers.data.Featurizer:Featurizer.generate_holdout_data",
           "elexmodel.models.ConformalElectionModel:ConformalElectionModel.get_unit_predictions",
           "elexmodel.models.ConformalElectionModel:ConformalElectionModel.get_unit_prediction_interval_bounds",
           "elexmodel.models.BootstrapElectionModel:BootstrapElectionModel.compute_bootstrap_errors"]
STUBS = ["none in the featurizer cases; the end-to-end cases use the pipeline stubs (the quantile-regression stub records the matrices)"]
ASSUMES = ["continuous feature values are arbitrary reals; categorical levels come from a 3-letter alphabet per fixed effect",
           "an intercept is always added (the only mode any estimator uses)"]
OUTSIDE = ["more than 5 units / 2 fixed effects / 3 levels", "scale_features=True (no estimator uses it)",
           "hash-seed dependent column order (not observable)"]
BOUNDS = {"quick": "3 fitting + 2 held-out (+1 unexpected) units; fixed effect A with 3 levels: every assignment of levels to the 5 units "
                   "(3^5) for selection 'all', and every assignment for selection ['a']; second fixed effect: 3 units vary over 3 levels, first effect varies on 2 units; "
                   "2 states with separate-state models on/off; 2 continuous features (symbolic)",
          "thorough": "adds: every assignment for selections ['a','b'] and list-form fixed effects; 4 fitting units"}
OPTS = {"quick": dict(case_timeout_s=900, solver_timeout_ms=20000, max_paths=100000),
        "thorough": dict(case_timeout_s=3000, solver_timeout_ms=20000, max_paths=1000000)}
LEVELS = ["a", "b", "c"]


def cases(tier):
    out = []
    sels = ["all", ["a"]] if tier == "quick" else ["all", ["a"], ["a", "b"], "list"]
    for sel in sels:
        for first in LEVELS:  # level of the first fitting unit: splits the enumeration into parallel parts
            out.append(dict(name="fe_A_%s_first_%s" % ("all" if sel == "all" else ("list" if sel == "list" else "+".join(sel)), first),
                            kind="featurizer", sel=sel, first=first, n_fit=3, n_hold=2, second_fe=False, states=False, weight=10))
    # the unit outside the fitting / held-out rows is a REPORTING unit set aside as non-modelled (or a reporting unexpected unit), with
    # any level: it must not make a level "observed"
    for first in LEVELS:
        for cat in ("non-modeled: strange turnout factor", "unexpected"):
            out.append(dict(name="fe_A_all_first_%s_extra_reporting_%s" % (first, cat.split(":")[0].replace("-", "")), kind="featurizer",
                            sel="all", first=first, n_fit=3, n_hold=2, second_fe=False, states=False, extra_cat=cat, extra_reporting=1,
                            weight=10))
    out.append(dict(name="two_fe", kind="featurizer", sel="all", first=None, n_fit=3, n_hold=2, second_fe=True, states=False, weight=60))
    for sep in ([], ["AA"], ["BB"], ["AA", "BB"]):
        out.append(dict(name="separate_states_%s" % ("+".join(sep) or "none"), kind="states", sep=sep, weight=5))
        # centring together with separate-state models (no caller combines them, the featurizer's interface allows it)
        out.append(dict(name="separate_states_centred_%s" % ("+".join(sep) or "none"), kind="states", sep=sep, center=True, weight=5))
    for pi, nrep in (("nonparametric", 6), ("gaussian", 7)):
        out.append(dict(name="pipeline_%s" % pi[:2], kind="pipeline", pi=pi, nrep=nrep, weight=30))
    out.append(dict(name="bootstrap_matrices", kind="bs", weight=20))
    if tier == "thorough":
        for first in LEVELS:
            out.append(dict(name="fe_A_all_4fit_first_%s" % first, kind="featurizer", sel="all", first=first, n_fit=4, n_hold=2,
                            second_fe=False, states=False, weight=30))
    return out


def run_bs(ctx, case):
    """the bootstrap estimator's matrices: the real compute_bootstrap_errors (numeric leaves stubbed) fits and predicts with
    matrices of the same width, intercept first, baseline margin next, also when an outstanding unit has an unseen level"""
    from elexmodel.models.BootstrapElectionModel import BootstrapElectionModel as BEM
    from . import c06

    lv_non = [LEVELS[ctx.choose("level_n0", 3)], ["a", "b", "zz"][ctx.choose("level_n1", 3)]]
    L = c06.LeafStubs(ctx).install()
    try:
        m = BEM({"features": ["baseline_normalized_margin"], "fixed_effects": {"A": "all"}, "B": 2, "lambda_": 1.0, "strata": ["S"]})

        def frame(n, tag, rep, levels):
            d = pd.DataFrame({"postal_code": ["AA"] * n, "geographic_unit_fips": ["%s%d" % (tag, i) for i in range(n)], "A": levels,
                              "S": ["s1"] * n, "baseline_normalized_margin": [0.1 * (i + 1) - 0.2 for i in range(n)],
                              "reporting": [rep] * n, "unit_category": ["expected"] * n, "baseline_weights": [100.0 + i for i in range(n)],
                              "results_normalized_margin": [0.05 * i for i in range(n)], "turnout_factor": [1.0 + 0.01 * i for i in range(n)],
                              "percent_expected_vote": [100.0] * n if rep else [40.0 + 20 * i for i in range(n)]})
            return d

        rep = frame(4, "r", 1, ["a", "b", "a", "b"])
        non = frame(2, "n", 0, lv_non)
        unx = rep.iloc[0:0].copy()
        m.compute_bootstrap_errors(rep, non, unx)
    finally:
        L.uninstall()
    obl = [("the bootstrap fits were made", len(L.fit_widths) >= 2),
           ("every prediction matrix has as many columns as the fitted ones", len(set(L.fit_widths + L.predict_widths)) == 1)]
    x = L.fit_x[0]
    obl.append(("first column of the fitted matrix is the intercept", all(float(v) == 1 for v in x[:, 0])))
    obl.append(("second column is the baseline margin", [round(float(v), 6) for v in x[:, 1]] == [-0.1, 0.0, 0.1, 0.2]))
    obl.append(("one dummy (level b; level a absorbed)", x.shape[1] == 3 and [float(v) for v in x[:, 2]] == [0, 1, 0, 1]))
    return obl, {}


def run(ctx, case):
    if case["kind"] == "bs":
        return run_bs(ctx, case)
    if case["kind"] == "featurizer":
        return run_featurizer(ctx, case)
    if case["kind"] == "states":
        return run_states(ctx, case)
    return run_pipeline(ctx, case)


def make_units(ctx, case, n_fit, n_hold, n_unexp=1):
    n = n_fit + n_hold + n_unexp
    lv = []
    fixedA = ["a", "b", "a", "c", "b", "a", "c"]
    for i in range(n):
        if i == 0 and case.get("first"):
            lv.append(case["first"])
        elif case.get("second_fe") and i not in (0, n_fit):
            lv.append(fixedA[i])
        else:
            lv.append(LEVELS[ctx.choose("levelA_%d" % i, 3)])
    lv2 = None
    if case.get("second_fe"):
        fixedB = ["x", "y", "x", "y", "x", "y", "x"]
        lv2 = [["x", "y", "z"][ctx.choose("levelB_%d" % i, 3)] if i in (1, n_fit, n_fit + 1) else fixedB[i] for i in range(n)]
    f1 = [ctx.real("f1_%d" % i, -100, 100) for i in range(n)]
    bnm = [ctx.real("bnm_%d" % i, -1, 1) for i in range(n)]
    df = pd.DataFrame({
        "postal_code": ["AA"] * n, "geographic_unit_fips": ["u%d" % i for i in range(n)],
        "reporting": [1] * n_fit + [0] * n_hold + [case.get("extra_reporting", 0)] * n_unexp,
        "unit_category": ["expected"] * (n_fit + n_hold) + [case.get("extra_cat", "unexpected")] * n_unexp,
        "A": lv, "f1": col(f1), "baseline_normalized_margin": col(bnm)})
    if lv2:
        df["B"] = lv2
    return df, lv, lv2, f1, bnm


def col(vals):
    a = np.empty(len(vals), dtype=object)
    a[:] = vals
    if not any(isinstance(v, Sym) for v in vals):
        return a.astype(float)
    return a


def run_featurizer(ctx, case):
    from elexmodel.handlers.data.Featurizer import Featurizer

    n_fit, n_hold = case["n_fit"], case["n_hold"]
    df, lv, lv2, f1, bnm = make_units(ctx, case, n_fit, n_hold)
    n = len(df)
    sel = case["sel"]
    if sel == "list":
        fes = ["A"] + (["B"] if lv2 else [])
        selected = {"A": None, "B": None}
    else:
        fes = {"A": sel}
        if lv2:
            fes["B"] = "all"
        selected = {"A": None if sel == "all" else sel, "B": None}
    feats = ["f1", "baseline_normalized_margin"]
    fz = Featurizer(feats, fes)
    x_all = fz.prepare_data(df, center_features=True, scale_features=False, add_intercept=True)
    fit = fz.filter_to_active_features(x_all[:n_fit])
    hold = fz.generate_holdout_data(x_all[n_fit:n_fit + n_hold])
    obl = []
    obl.append(("fit and prediction matrices have the same columns in the same order", list(fit.columns) == list(hold.columns)))
    cols = list(fit.columns)
    obl.append(("intercept first, baseline margin terms next", cols[:2] == ["intercept", "baseline_normalized_margin"]))
    obl.append(("no duplicate columns", len(set(cols)) == len(cols)))
    # centring over ALL units
    for name, vals in (("f1", f1), ("baseline_normalized_margin", bnm)):
        mean = P.csum(vals) / n
        for i in range(n_fit):
            obl.append(("fit row %d: %s centred over all units" % (i, name), AEQ(fit[name].iloc[i], vals[i] - mean)))
        for j in range(n_hold):
            obl.append(("held-out row %d: %s centred over all units" % (j, name), AEQ(hold[name].iloc[j], vals[n_fit + j] - mean)))
    obl.append(("intercept column is all ones", all(v == 1 for v in fit["intercept"].tolist() + hold["intercept"].tolist())))
    for fe, levels in (("A", lv), ("B", lv2)):
        if levels is None:
            continue
        pooled = [l if (selected[fe] is None or l in selected[fe]) else "other" for l in levels]
        seen = sorted(set(pooled[:n_fit]))  # levels observed on the fitting rows (columns are created in sorted order)
        fecols = [c for c in cols if c.startswith(fe + "_")]
        want_cols = ["%s_%s" % (fe, l) for l in seen[1:]]
        obl.append(("%s: one fitted dummy per observed level except exactly one absorbed by the intercept" % fe, fecols == want_cols))
        if fecols != want_cols:
            continue
        for c in fecols:
            v = fit[c].tolist()
            obl.append(("%s: fitted dummy %s is non-constant on the fitting rows" % (fe, c), len(set(v)) > 1))
            obl.append(("%s: fitted dummy %s is the indicator of its level on the fitting rows" % (fe, c),
                        v == [1 if "%s_%s" % (fe, pooled[i]) == c else 0 for i in range(n_fit)]))
        k = len(fecols)
        for j in range(n_hold):
            l = pooled[n_fit + j]
            row = [hold[c].iloc[j] for c in fecols]
            if l in seen:
                obl.append(("%s: held-out unit %d with a seen level gets that level's indicator" % (fe, j),
                            all(bool(AEQ(x, 1 if "%s_%s" % (fe, l) == c else 0)) for x, c in zip(row, fecols))))
            else:
                obl.append(("%s: held-out unit %d with an unseen level gets 1/(k+1) on each of the k fitted levels" % (fe, j),
                            all(bool(AEQ(x, 1 / (k + 1))) for x in row)))
    return obl, {"fit": fit, "hold": hold}


def run_states(ctx, case):
    """per-state feature copies are created only for states that have reporting units"""
    from elexmodel.handlers.data.Featurizer import Featurizer

    # AA: 2 reporting + 1 nonreporting ; BB: only nonreporting units
    st = ["AA", "AA", "AA", "BB", "BB"]
    rep = [1, 1, 0, 0, 0]
    n = len(st)
    f1 = [ctx.real("f1_%d" % i, -100, 100) for i in range(n)]
    bnm = [ctx.real("bnm_%d" % i, -1, 1) for i in range(n)]
    df = pd.DataFrame({"postal_code": st, "geographic_unit_fips": ["u%d" % i for i in range(n)], "reporting": rep,
                       "unit_category": ["expected"] * n, "f1": col(f1), "baseline_normalized_margin": col(bnm)})
    feats = ["baseline_normalized_margin", "f1"]
    fz = Featurizer(feats, {}, states_for_separate_model=case["sep"])
    centre = bool(case.get("center"))
    x_all = fz.prepare_data(df, center_features=centre, scale_features=False, add_intercept=True)
    fit = fz.filter_to_active_features(x_all[:2])
    hold = fz.generate_holdout_data(x_all[2:])
    cols = list(fit.columns)
    obl = [("fit and prediction matrices have the same columns in the same order", cols == list(hold.columns))]
    want_state_cols = ["%s_%s" % (f, s) for s in case["sep"] if s == "AA" for f in feats]
    got_state_cols = [c for c in cols if c.endswith(("_AA", "_BB"))]
    obl.append(("per-state copies exist exactly for the separate-model states that have reporting units",
                sorted(got_state_cols) == sorted(want_state_cols)))
    nb = len([c for c in cols if c.startswith("baseline_normalized_margin")])
    obl.append(("intercept first, then all baseline margin terms",
                cols[0] == "intercept" and all(c.startswith("baseline_normalized_margin") for c in cols[1:1 + nb])))
    if centre:
        # centred over ALL units: every continuous feature column has mean zero over the whole frame, and each cell is the
        # uncentred cell (0 on the rows of a separate-model state) minus the mean of the uncentred column
        for f, vals in (("f1", f1), ("baseline_normalized_margin", bnm)):
            raw = [0 if ("AA" in case["sep"] and st[i] == "AA") else vals[i] for i in range(n)]
            mean = P.csum(raw) / n
            obl.append(("centring requested: column %s has mean zero over all units" % f, AEQ(P.csum(list(x_all[f])), 0)))
            for i in range(n):
                obl.append(("centring requested: %s of unit %d is its value minus the mean over all units" % (f, i),
                            AEQ(x_all[f].iloc[i], raw[i] - mean)))
    if "AA" in case["sep"] and not centre:
        for i in range(3):
            x = x_all.iloc[i]
            obl.append(("unit %d of a separate state: own copy carries the value, shared column is 0" % i,
                        sym.AND(AEQ(x["f1_AA"], f1[i]), AEQ(x["f1"], 0)) if isinstance(AEQ(x["f1_AA"], f1[i]), sym.SymBool)
                        else (AEQ(x["f1_AA"], f1[i]) and AEQ(x["f1"], 0))))
        for i in (3, 4):
            x = x_all.iloc[i]
            obl.append(("unit %d of another state: copy is 0, shared column carries the value" % i,
                        sym.AND(AEQ(x["f1_AA"], 0), AEQ(x["f1"], f1[i])) if isinstance(AEQ(x["f1"], f1[i]), sym.SymBool)
                        else (AEQ(x["f1_AA"], 0) and AEQ(x["f1"], f1[i]))))
    return obl, {"x_all": x_all}


def run_pipeline(ctx, case):
    """through the real conformal model: the matrix used for fitting and the one used for prediction have the same width,
    for the median fit and for both interval fits (levels seen only outside the fitting rows included)"""
    nrep = case["nrep"]
    units = P.standard_units(nrep, 3, cls=False)
    lv = {}
    for i, u in enumerate(units):
        # reporting units: levels a / b ; nonreporting units: one seen level, one level seen nowhere in fitting, one chosen
        if u["kind"] == "rep":
            lv[u["fips"]] = "a" if i % 2 == 0 else "b"
    lv["n0"], lv["n1"] = "a", "zz"
    lv["n2"] = LEVELS[ctx.choose("level_n2", 3)]
    for u in units:
        u["cls"] = lv[u["fips"]]
    c = dict(case, alphas=[0.5] if case["pi"] == "nonparametric" else [0.7], estimands=["turnout"], units=units,
             aggregates=["postal_code", "unit"], fixed_effects={"county_classification": "all"},
             config_fixed_effects=["county_classification"], cut_calibration=True)
    r = P.run_client(ctx, c)
    obl = []
    calls = r.qr.calls
    obl.append(("three fits (median, lower, upper)", len(calls) == 3))
    for i, call in enumerate(calls):
        xw = np.asarray(call["x"], dtype=object).shape[1]
        for pw in call.get("predict_widths", []):
            obl.append(("fit %d: prediction matrix has as many columns as the fitted one" % i, pw == xw))
        obl.append(("fit %d: predictions were made with it" % i, len(call.get("predict_widths", [])) >= 1))
        x = np.asarray(call["x"], dtype=object)
        obl.append(("fit %d: first column is the intercept" % i, all((not isinstance(e, Sym)) and e == 1 for e in x[:, 0])))
        for j in range(1, x.shape[1]):
            colv = [e for e in x[:, j]]
            if all(not isinstance(e, Sym) for e in colv):
                obl.append(("fit %d: dummy column %d is non-constant on the fitting rows" % (i, j), len(set(colv)) > 1))
    return obl, P.tables_out(r.res)


def signature(case, entry):
    return "%s|%s|%s" % (case["kind"], entry["kind"], entry["name"])
