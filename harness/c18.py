"""C18 - nothing is persisted unless asked; live results are saved before a too-few-units error; key hygiene."""
import os
import shutil
import tempfile
import time

import pandas as pd

from engine import harness as H
from engine import sym, xhair
from . import pipeline as P
import scenario as S

ID = "C18"
NO_SHADOW = True
ENCODED = ["elexmodel.client:ModelClient.get_estimates", "elexmodel.handlers.data.CombinedData:CombinedDataHandler.write_data",
           "elexmodel.handlers.data.ModelResults:ModelResultsHandler.write_data",
           "elexmodel.distributions.GaussianModel:GaussianModel.fit",
           "elexmodel.distributions.GaussianModel:GaussianModel._write_conformalization_data",
           "elexmodel.distributions.GaussianModel:GaussianModel._write_gaussian_bounds",
           "elexmodel.handlers.s3:S3Util.put", "elexmodel.handlers.s3:S3CsvUtil.put", "elexmodel.handlers.s3:S3Util.get_file_path",
           "elexmodel.handlers.config:ConfigHandler.save", "elexmodel.handlers.data.PreprocessedData:PreprocessedDataHandler.save_data"]
STUBS = P.STUBS_PIPELINE + ["boto3 client: recording fake (every put_object is logged)", "local files: the run happens in a fresh temporary "
                            "working directory that is inspected afterwards", P.CUT_STUB_NOTE]
ASSUMES = P.ASSUMES_PIPELINE
OUTSIDE = ["the bootstrap estimator, historical evaluation writes, national-summary writes (same code path as prediction tables)",
           "ids longer than 3 characters in the CrossHair key contracts"]
BOUNDS = {"quick": "two-call sequences with model_parameters left out; every subset of {results, data, config, conformalization} x {local, non-local} x {NP, GA} x {gate passes, gate fails}, "
                   "1-2 interval levels; key builders with symbolic id strings <= 3 chars (CrossHair)", "thorough": "same, CrossHair timeout x4"}
OPTS = {"quick": dict(case_timeout_s=900, solver_timeout_ms=30000), "thorough": dict(case_timeout_s=1800, solver_timeout_ms=60000)}
OPTIONS = ["results", "data", "config", "conformalization"]


def cases(tier):
    out = []
    for pi, need, alphas in (("nonparametric", 3, [0.5]), ("gaussian", 7, [0.7, 0.9])):
        for enough in (True, False):
            for env in ("local", "prod"):
                n = need if enough else need - 1
                out.append(dict(name="%s_%s_%s" % (pi[:2], "pass" if enough else "gatefail", env), pi=pi, alphas=alphas, env=env,
                                enough=enough, estimands=["turnout"], units=P.standard_units(n, 2, [P.U("c1_x0", "unexp")], cls=True),
                                aggregates=["postal_code", "county_fips", "unit"], cut_calibration=True, weight=n))
    # two calls in one process, the caller leaves model_parameters out: what the first call asked for must not stick
    for env in ("local", "prod"):
        out.append(dict(name="ga_sequence_%s" % env, kind="sequence", pi="gaussian", alphas=[0.7], env=env, estimands=["turnout"],
                        units=P.standard_units(7, 2, [P.U("c1_x0", "unexp")], cls=True), aggregates=["postal_code", "county_fips", "unit"],
                        cut_calibration=True, omit_model_parameters=True, weight=10))
    return out


def run_sequence(ctx, case):
    import elexmodel.client as cl
    from . import c12

    orig_env = cl.APP_ENV
    cl.APP_ENV = case["env"]
    d = tempfile.mkdtemp(prefix="verif_c18_")
    cwd = os.getcwd()
    os.chdir(d)
    try:
        c12.fresh_process_state()
        sc = P.build(ctx, case)
        pre, cur = sc.frames()
        P.run_client(ctx, dict(case, save_output=["conformalization"]), sc=sc, frames=(pre.copy(), cur.copy()))
        first = [p["Key"] for p in P.LAST_S3.puts]
        P.run_client(ctx, dict(case, save_output=[]), sc=sc, frames=(pre.copy(), cur.copy()))
        second = [p["Key"] for p in P.LAST_S3.puts]
        files = sorted(os.path.relpath(os.path.join(dp, f), d) for dp, _, fs in os.walk(d) for f in fs)
        c12.fresh_process_state()
    finally:
        os.chdir(cwd)
        cl.APP_ENV = orig_env
        shutil.rmtree(d, ignore_errors=True)
    obl = [("the run that asks for conformalization data writes it (2 levels x 2 files)", len(first) == 4),
           ("a later run with no options writes nothing anywhere (what an earlier run asked for does not stick)", second == [] and files == [])]
    return obl, {}


def run(ctx, case):
    if case.get("kind") == "sequence":
        return run_sequence(ctx, case)
    import elexmodel.client as cl
    from elexmodel.client import ModelNotEnoughSubunitsException

    mask = ctx.choose("save_output_subset", 16)
    save = [o for i, o in enumerate(OPTIONS) if mask >> i & 1]
    d = tempfile.mkdtemp(prefix="verif_c18_")
    cwd = os.getcwd()
    orig_env = cl.APP_ENV
    cl.APP_ENV = case["env"]
    os.chdir(d)
    outcome, r, puts = None, None, []
    try:
        c = dict(case, save_output=save)
        sc = P.build(ctx, c)
        try:
            r = P.run_client(ctx, c, sc=sc, keep_s3=True)
            outcome = "completed"
        except ModelNotEnoughSubunitsException:
            outcome = "not-enough"
        puts = list(P.LAST_S3.puts)
        files = sorted(os.path.relpath(os.path.join(dp, f), d) for dp, _, fs in os.walk(d) for f in fs)
    finally:
        os.chdir(cwd)
        cl.APP_ENV = orig_env
        shutil.rmtree(d, ignore_errors=True)
    eid, office, ut = S.ELECTION, "G", "county"
    root = "root-dev/%s/" % eid
    keys = [p["Key"] for p in puts]
    obl = [("gate outcome as constructed", outcome == ("completed" if case["enough"] else "not-enough"))]
    want = []
    remote = case["env"] != "local"
    if remote and "results" in save:
        want += [root + "results/%s/%s/current.csv" % (office, ut), root + "results/%s/%s/current_counties.csv" % (office, ut)]
    if outcome == "completed":
        if "conformalization" in save and case["pi"] == "gaussian":
            for agg in ("postal_code", "county_fips"):
                for a in case["alphas"]:
                    want += [root + "gaussian/%s/%s/turnout-%s-%s/conformalization_data.csv" % (office, ut, agg, a),
                             root + "gaussian/%s/%s/turnout-%s-%s/bounds.csv" % (office, ut, agg, a)]
        if remote and "results" in save:
            want += [root + "predictions/%s/%s/%s/current.csv" % (office, ut, t) for t in r.res]
    obl.append(("remote writes are exactly those the options allow (%s, %s)" % ("+".join(save) or "none", case["env"]),
                sorted(keys) == sorted(want)))
    if remote and "results" in save:
        obl.append(("live results are written first (before the too-few-units check)",
                    keys[:2] == want[:2]))
    obl.append(("every remote key is whitespace-free", all(not any(ch.isspace() for ch in k) for k in keys)))
    obl.append(("every remote key lies under <root>/<election id>/", all(k.startswith(root) for k in keys)))
    want_files = []
    if "config" in save:
        want_files.append("config/%s.json" % eid)
    if "data" in save:
        want_files.append("data/%s/%s/data_%s.csv" % (eid, office, ut))
    obl.append(("local files are exactly those the options allow", files == sorted(want_files)))
    return obl, {}


def main(tier, seed, jobs, only):
    t0 = time.time()
    code, ev, lines = H.run_module(__name__, tier, seed, jobs=jobs, only=only)
    res = xhair.run_targets("c18_targets", timeout_s=300 if tier == "quick" else 900, jobs=min(jobs, 8))
    code, ev, lines = merge_xhair(ID, "c18_targets", code, ev, lines, res)
    ev["wall_s"] = round(time.time() - t0, 2)
    return code, ev, lines


def merge_xhair(pid, modname, code, ev, lines, res):
    import json

    cov = ev["coverage"]
    cov["crosshair"] = [{k: r.get(k) for k in ("name", "status", "wall_s", "call", "message")} for r in res]
    cov["obligations"] += len(res)
    known = [k for k in H.load_known_findings() if k.get("property") == pid and k.get("status", "known") == "known"]
    for r in res:
        twin = r["name"].endswith("_reach")
        if twin:
            if r["status"] == "refuted":
                cov["discharged"] += 1
            else:
                cov.setdefault("inconclusive", []).append("crosshair reachability twin %s not refuted (%s)" % (r["name"], r["status"]))
                code = code if code == 1 else 2
            continue
        if r["status"] == "confirmed":
            cov["discharged"] += 1
        elif r["status"] == "refuted":
            ok, what = xhair.replay(modname, r["name"], r["call"])
            sig = "crosshair|%s" % r["name"]
            k = next((k for k in known if __import__("re").search(k["match"], sig)), None)
            if ok and k is not None:
                lines.append("KNOWN-FINDING: property=%s %s [%s]" % (pid, k["what"], k["id"]))
                cov.setdefault("known_findings_matched", []).append(k["id"])
            elif ok:
                os.makedirs(os.path.join(H.VERIF, "replays"), exist_ok=True)
                path = os.path.join(H.VERIF, "replays", "%s_xhair_%s.json" % (pid, r["name"]))
                json.dump(dict(property=pid, crosshair=dict(module=modname, target=r["name"], call=r["call"], result=what)), open(path, "w"))
                lines.append("VIOLATION property=%s replay=%s" % (pid, path))
                lines.append("  %s|%s -> %s" % (sig, r["call"], what))
                ev["violations"] = ev.get("violations", 0) + 1
                code = 1
            else:
                cov.setdefault("inconclusive", []).append("crosshair counterexample %s did not reproduce" % r["call"])
                code = code if code == 1 else 2
        else:
            cov.setdefault("inconclusive", []).append("crosshair %s: %s" % (r["name"], r["raw"][-200:]))
            code = code if code == 1 else 2
    cov["exhaustive"] = code == 0
    cov["technique"] += "; CrossHair 0.0.110 (z3) for string/list inputs"
    return code, ev, lines


def signature(case, entry):
    return "%s|%s|%s" % (case["pi"], entry["kind"], entry["name"].split(" (")[0])
