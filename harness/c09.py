"""C09 - which units feed the model follows the documented eligibility rules exactly."""
import itertools

import numpy as np
import pandas as pd

from engine import sym
from engine.sym import AND, OR, AEQ, Sym
from . import pipeline as P

ID = "C09"
ENCODED = [
    "elexmodel.handlers.data.CombinedData:CombinedDataHandler.__init__",
    "elexmodel.handlers.data.CombinedData:CombinedDataHandler.get_units",
    "elexmodel.handlers.data.CombinedData:CombinedDataHandler._get_unexpected_units",
    "elexmodel.handlers.data.CombinedData:CombinedDataHandler._get_non_modeled_units",
    "elexmodel.handlers.data.CombinedData:CombinedDataHandler._get_units_with_baseline_of_zero",
    "elexmodel.handlers.data.Estimandizer:Estimandizer.add_estimand_results",
    "elexmodel.handlers.data.Estimandizer:Estimandizer.add_turnout_factor",
    "elexmodel.handlers.data.Estimandizer:margin",
    "elexmodel.handlers.data.PreprocessedData:PreprocessedDataHandler.load_data",
    "elexmodel.client:ModelClient.get_estimates",
]
STUBS = ["none for the eligibility harness (no model is run); the end-to-end cases use the pipeline stubs",
         "outlier cases: CombinedDataHandler._fit_outlier_detection_model returns an explorer-chosen subset of the reporting units"]
ASSUMES = ["vote counts and baselines are integers in [0, 1e7] (baseline 0 allowed), dem + gop <= turnout",
           "expected vote, reporting threshold and turnout-factor limits are arbitrary reals (0 <= pev <= 120, 0 < thr <= 100, "
           "0 < lower < upper)"]
OUTSIDE = ["the numerics of the two outlier models (which units they flag): their LP fit is replaced by an arbitrary flagged subset and "
           "their 20-unit minimum is lowered in the 'outlier' cases, so only the plumbing around them (categories, first reason wins, "
           "no duplicates) is covered",
           "non-integer baselines within 1e-8 of zero", "more than 3 units at once"]
BOUNDS = {"quick": "2 fully symbolic units: unit A ranges over every structural option {baseline+feed, feed only, baseline only} x "
                   "{unit-blocklisted} x {state-blocklisted}, unit B in baseline and feed; all values symbolic incl. threshold and limits; policies drop/zero; "
                   "estimands [turnout], [margin], [dem, turnout]; plus limits passed through ModelClient.get_estimates (0, 0.5, user)",
          "thorough": "units A and B both range over all structural options; 3 fully symbolic units for 4 options"}
OPTS = {"quick": dict(case_timeout_s=600, solver_timeout_ms=30000), "thorough": dict(case_timeout_s=1800, solver_timeout_ms=60000)}

STRUCT = [(ib, inf, bl, st) for (ib, inf) in ((True, True), (False, True), (True, False)) for bl in (False, True)
          for st in ("AA", "BB")]


def cases(tier):
    out = []
    plain = (True, True, False, "AA")
    for ests in (["turnout"], ["margin"], ["dem", "turnout"]):
        for policy in ("drop", "zero"):
            if tier == "quick":
                combos = [(a, plain) for a in STRUCT]
            else:
                combos = [(a, b) for a in STRUCT for b in STRUCT if STRUCT.index(b) >= STRUCT.index(a)] + [
                    (a, plain, plain) for a in STRUCT[:4]]
            for combo in combos:
                if policy == "zero" and all(c[1] for c in combo):
                    continue  # policy only matters when a unit is missing from the feed
                nm = "|".join("%s%s%s%s" % ("B" if c[0] else "-", "F" if c[1] else "-", "x" if c[2] else "-", c[3][0]) for c in combo)
                out.append(dict(name="units_%s_%s_%s" % ("+".join(ests), policy, nm), kind="units", estimands=ests, policy=policy,
                                structs=[list(c) for c in combo], weight=len(ests)))
    # outlier models: the LP fit inside them is replaced by "any subset of the reporting units may be flagged" (explorer-chosen),
    # and the 20-unit minimum is lowered so that they run on 2 units
    for ests in (["turnout"], ["margin"]):
        for on in ((True, True), (True, False), (False, True)):
            out.append(dict(name="outlier_%s_t%d_m%d" % ("+".join(ests), on[0], on[1]), kind="outlier", estimands=ests, policy="drop",
                            structs=[list(plain), list(plain)], fit_turnout=on[0], fit_margin=on[1], weight=3))
    for lo in (0, 0.5, 0.25):
        out.append(dict(name="client_limits_lo%s" % lo, kind="client", tf_lo=lo, tf_hi=2.0, weight=20))
    out.append(dict(name="client_limits_hi3", kind="client", tf_lo=0.5, tf_hi=3.0, weight=20))
    return out


def num(ctx, name, lo=0, hi=10 ** 7):
    return ctx.int(name, lo, hi)


def run(ctx, case):
    if case["kind"] == "client":
        return run_client_limits(ctx, case)
    from elexmodel.handlers.data.CombinedData import CombinedDataHandler
    from elexmodel.handlers.data.PreprocessedData import PreprocessedDataHandler

    ests = case["estimands"]
    margin = "margin" in ests
    parties = ["dem", "gop"] if margin else (["dem"] if "dem" in ests else [])
    thr = ctx.real("thr", 0, 100, lo_strict=True)
    lo = ctx.real("tf_lo", 0, None, lo_strict=True)
    hi = ctx.real("tf_hi", 0, None, lo_strict=True)
    ctx.assume(lo < hi)
    units = []
    pre_rows, cur_rows = [], []
    for i, (ib, inf, bl, st) in enumerate(case["structs"]):
        f = "u%d" % i
        v = dict(fips=f, state=st, in_baseline=ib, in_feed=inf, blocklisted=bl)
        if ib:
            v["bt"] = num(ctx, "bt_%s" % f)
            row = {"postal_code": st, "geographic_unit_fips": f, "county_fips": "c%d" % i, "baseline_turnout": v["bt"]}
            for p in parties:
                v["b" + p] = num(ctx, "b%s_%s" % (p, f))
                row["baseline_" + p] = v["b" + p]
            ctx.assume(P.csum(v["b" + p] for p in parties) <= v["bt"] if parties else True)
            pre_rows.append(row)
        if inf:
            v["rt"] = num(ctx, "rt_%s" % f)
            v["pev"] = ctx.real("pev_%s" % f, 0, 120)
            row = {"postal_code": st, "geographic_unit_fips": f, "results_turnout": v["rt"], "percent_expected_vote": v["pev"]}
            for p in parties:
                v["r" + p] = num(ctx, "r%s_%s" % (p, f))
                row["results_" + p] = v["r" + p]
            ctx.assume(P.csum(v["r" + p] for p in parties) <= v["rt"] if parties else True)
            cur_rows.append(row)
        units.append(v)
    pre = pd.DataFrame(pre_rows) if pre_rows else pd.DataFrame(
        {c: [] for c in ["postal_code", "geographic_unit_fips", "county_fips", "baseline_turnout"] + ["baseline_" + p for p in parties]})
    cur = pd.DataFrame(cur_rows) if cur_rows else pd.DataFrame(
        {c: [] for c in ["postal_code", "geographic_unit_fips", "results_turnout", "percent_expected_vote"] + ["results_" + p for p in parties]})
    if not pre_rows or not cur_rows:
        raise sym.Abort("degenerate scenario without baseline or without feed")
    baselines = {e: (e if e != "margin" else "margin") for e in ests}
    pre = PreprocessedDataHandler("E", "G", "county", ests, baselines, data=pre).data
    data = CombinedDataHandler(pre, cur, ests, "county", handle_unreporting=case["policy"])
    blocked_units = [u["fips"] for u in units if u["blocklisted"]]
    flagged = {"turnout_factor": set(), "results_normalized_margin": set()}
    fit_t, fit_m = bool(case.get("fit_turnout")), bool(case.get("fit_margin"))
    if case["kind"] == "outlier":
        data.n_minimum_for_outlier_detection_model = 0
        for ui, u in enumerate(units):
            for resp in flagged:
                if ui == 0:
                    if ctx.choose("flag_%s_%s" % (resp[:4], u["fips"]), 2):
                        flagged[resp].add(u["fips"])
                elif resp == "results_normalized_margin":
                    flagged[resp].add(u["fips"])  # the second unit is always flagged by the margin model only

        def fake_outlier_model(reporting_units, response_variable, outlier_z_threshold):
            return reporting_units[reporting_units["geographic_unit_fips"].isin(flagged[response_variable])].copy()

        data._fit_outlier_detection_model = fake_outlier_model
    rep, non, unx = data.get_units(thr, lo, hi, blocked_units, ["BB"], fit_m, fit_t, 2.0, ["postal_code", "county_fips", "unit"])
    frames = {"reporting": rep, "nonreporting": non, "passed-through": unx}
    where = {}
    for nm, fr in frames.items():
        for f in fr["geographic_unit_fips"].tolist():
            where.setdefault(f, []).append(nm)
    obl = []
    for u in units:
        f = u["fips"]
        want_frame, want_cat, vals = expected(u, case["policy"], thr, lo, hi, margin, parties)
        if want_frame == "reporting" and case["kind"] == "outlier":
            # an eligible reporting unit can still be flagged by an enabled outlier model (turnout model first)
            if fit_t and f in flagged["turnout_factor"]:
                want_frame, want_cat = "passed-through", "non-modeled: strange turnout factor modeled"
            elif fit_m and margin and f in flagged["results_normalized_margin"]:
                want_frame, want_cat = "passed-through", "non-modeled: strange margin change modeled"
        got = where.get(f, [])
        if want_frame is None:
            obl.append(("unit %s (not in feed, drop policy) is in no frame" % f, got == []))
            continue
        obl.append(("unit %s lands in exactly the %s frame" % (f, want_frame), got == [want_frame]))
        if got != [want_frame]:
            continue
        row = frames[want_frame].set_index("geographic_unit_fips").loc[f]
        obl.append(("unit %s category %s" % (f, want_cat), row["unit_category"] == want_cat))
        obl.append(("unit %s reporting flag" % f, int(row["reporting"]) == (1 if want_frame == "reporting" else 0)))
        if not u["in_feed"]:
            # zero policy: the statement only promises zeroed estimand counts and 0% expected vote for such a unit
            # (the auxiliary result columns of a unit that is missing from the feed stay NaN in the code; noted in DESIGN.md)
            vals = {"results_%s" % e: 0 for e in ests}
            vals["percent_expected_vote"] = 0
        for col, val in vals.items():
            if col not in row.index:
                obl.append(("unit %s has column %s" % (f, col), False))
                continue
            got_v = row[col]
            if sym.is_special(got_v):
                obl.append(("unit %s %s is finite (0 when the denominator is 0)" % (f, col), False))
            else:
                obl.append(("unit %s %s follows its definition" % (f, col), AEQ(got_v, val)))
    outs = {k: P.numeric_part(v) for k, v in frames.items()}
    return obl, outs


def safe_div(a, b):
    """a / b, 0 when b == 0 (forks on b == 0 for symbolic b)"""
    if isinstance(b, Sym):
        if bool(b == 0):
            return 0
        return a / b
    return 0 if b == 0 else a / b


def expected(u, policy, thr, lo, hi, margin, parties):
    """independent decision list written from the statement -> (frame, category, {column: value})"""
    vals = {}
    if not u["in_feed"]:
        if policy == "drop":
            return None, None, {}
        r = {"rt": 0, "pev": 0}
        for p in parties:
            r["r" + p] = 0
    else:
        r = u
    if margin:
        rw = r["rdem"] + r["rgop"]
        vals["results_margin"] = r["rdem"] - r["rgop"]
        vals["results_weights"] = rw
        vals["results_normalized_margin"] = safe_div(r["rdem"] - r["rgop"], rw)
    else:
        rw = r["rt"]
        vals["results_weights"] = rw
    if not u["in_baseline"]:
        return "passed-through", "unexpected", vals
    if margin:
        bw = u["bdem"] + u["bgop"]
        vals["baseline_margin"] = u["bdem"] - u["bgop"]
        vals["baseline_normalized_margin"] = safe_div(u["bdem"] - u["bgop"], bw)
    else:
        bw = u["bt"]
    vals["baseline_weights"] = bw
    tf = safe_div(rw, bw)
    vals["turnout_factor"] = tf
    if u["blocklisted"] or u["state"] == "BB":
        return "passed-through", "non-modeled: blocklisted", vals
    if bool(bw == 0):
        return "passed-through", "non-modeled: zero baseline", vals
    if bool(r["pev"] >= thr):
        if bool(tf <= lo) or bool(tf >= hi):
            return "passed-through", "non-modeled: strange turnout factor", vals
        return "reporting", "expected", vals
    return "nonreporting", "expected", vals


def run_client_limits(ctx, case):
    """the limits and blocklists given in model_parameters reach the eligibility code unchanged (through the real client)"""
    from . import c01

    units = P.standard_units(4, 1, [P.U("f0", "free", county="c1"), P.U("f1", "free", county="c2")])
    c = dict(case, pi="nonparametric", alphas=[0.5], estimands=["turnout"], units=units, cut_calibration=True,
             aggregates=["postal_code", "unit"])
    sc = P.build(ctx, c)
    r = P.run_client(ctx, c, sc=sc)
    cats = {u.fips: c01.classify(sc, u, c) for u in sc.units}
    ud = r.res["unit_data"].set_index("geographic_unit_fips")
    obl = []
    for f, cat in cats.items():
        want = cat.split(":")[0] if cat.startswith("expected") else cat
        obl.append(("unit %s category under limits (%s, %s)" % (f, case["tf_lo"], case["tf_hi"]), ud.loc[f, "unit_category"] == want))
        obl.append(("unit %s reporting flag" % f, int(ud.loc[f, "reporting"]) == (1 if cat == "expected:rep" else 0)))
    return obl, P.tables_out(r.res)


def signature(case, entry):
    return "%s|%s|%s|%s" % (case["kind"], "+".join(case.get("estimands", [])), entry["kind"], entry["name"])
