"""C11 - an unexpected unit only adds its own votes (self-composition: feed without / with the extra unit)."""
import pandas as pd

from engine import sym
from engine.sym import AEQ, Sym
from . import pipeline as P
from . import tworun as T
from . import c01

ID = "C11"
ENCODED = P.ENCODED_PIPELINE
STUBS = P.STUBS_PIPELINE + [P.CUT_STUB_NOTE, "boot_sigma modelled as a deterministic function of its data (its seeding is C12's subject)"]
ASSUMES = P.ASSUMES_PIPELINE
OUTSIDE = P.OUTSIDE_PIPELINE + ["bootstrap estimator: see the bs cases of this check"]
BOUNDS = {"quick": "NP (4 reporting) / GA (7 reporting) + 1-2 nonreporting (+1 existing unexpected unit); added unit in {known county, new county, "
                   "known district + new county, new district}; aggregate lists {state, county, classification, unit}, {state, unit}, "
                   "{state, district, county, unit} (office Y); votes and expected vote of the added unit symbolic",
          "thorough": "adds 2 estimands and 2 alphas, a second state"}
OPTS = {"quick": dict(case_timeout_s=900, solver_timeout_ms=30000), "thorough": dict(case_timeout_s=3000, solver_timeout_ms=60000)}


def cases(tier):
    out = []
    for pi, nrep, alphas in (("nonparametric", 4, [0.5]), ("gaussian", 7, [0.7])):
        for added in ("c1_new0", "c9_new0"):
            for aggs in (["postal_code", "county_fips", "county_classification", "unit"], ["postal_code", "unit"],
                         ["county_classification", "postal_code", "county_fips", "unit"]):
                for pre_unexp in (0, 1):
                    if pre_unexp and aggs[0] != "postal_code":
                        continue
                    extra = [P.U("c2_old0", "unexp")] if pre_unexp else []
                    out.append(dict(name="%s_%s_%s_pre%d" % (pi[:2], added, "+".join(a[:3] for a in aggs), pre_unexp), pi=pi,
                                    alphas=alphas, estimands=["turnout"], units=P.standard_units(nrep, 2, extra, cls=True),
                                    added=added, aggregates=aggs, cut_calibration=True, boot_sigma_deterministic=True, weight=nrep))
        # precinct unit types: ids with more "_" components than usual (a split precinct)
        out.append(dict(name="%s_precinct_split" % pi[:2], pi=pi, alphas=alphas, estimands=["turnout"],
                        units=P.standard_units(nrep, 2, cls=True), added="c1_p7_2", unit_type="precinct",
                        aggregates=["postal_code", "county_fips", "unit"], cut_calibration=True, boot_sigma_deterministic=True,
                        weight=nrep))
        out.append(dict(name="%s_precinct_district_split_Y" % pi[:2], pi=pi, alphas=alphas, estimands=["turnout"],
                        units=P.standard_units(nrep, 2, district=True), added="d1_c1_p7_2", office="Y", unit_type="precinct-district",
                        aggregates=["postal_code", "district", "county_fips", "unit"], cut_calibration=True,
                        boot_sigma_deterministic=True, weight=nrep + 3))
        for added in ("d1_c1_new0", "d1_c9_new0", "d9_c9_new0"):
            out.append(dict(name="%s_%s_Y" % (pi[:2], added), pi=pi, alphas=alphas, estimands=["turnout"],
                            units=P.standard_units(nrep, 2, district=True), added=added, office="Y", unit_type="county-district",
                            aggregates=["postal_code", "district", "county_fips", "unit"], cut_calibration=True,
                            boot_sigma_deterministic=True, weight=nrep + 3))
    # bootstrap (margin): two-run cases with a symbolic added unit make every denominator symbolic in the second run (12 min and
    # non-reproducing candidates for one case); the bootstrap clause is covered by C01's bs cases (conservation of margin and
    # two-party votes with a symbolic unexpected unit) and C06's interval cases (unexpected unit at county level) instead
    if tier == "thorough":
        for pi, nrep, alphas in (("nonparametric", 6, [0.5, 0.7]), ("gaussian", 7, [0.7, 0.9])):
            out.append(dict(name="%s_two_estimands" % pi[:2], pi=pi, alphas=alphas, estimands=["dem", "turnout"],
                            units=P.standard_units(nrep, 2, cls=True), added="c9_new0",
                            aggregates=["postal_code", "county_fips", "unit"], cut_calibration=True, boot_sigma_deterministic=True,
                            weight=50))
    return out


def run_bs(ctx, case):
    from . import bs as BS

    sc = BS.build_bs(ctx, case)
    pre, cur = sc.frames()
    f = case["added"]
    dem, gop = ctx.real("added_dem", 0, 10 ** 5), ctx.real("added_gop", 0, 10 ** 5)
    oth = ctx.real("added_other", 0, 10 ** 5)
    row = {"postal_code": "AA", "geographic_unit_fips": f, "percent_expected_vote": ctx.real("pev_added", 0, 120),
           "results_dem": dem, "results_gop": gop, "results_turnout": dem + gop + oth}
    cur2 = pd.concat([cur, pd.DataFrame([row])], ignore_index=True)
    boot = BS.BootStub(ctx, case["B"]).install()
    try:
        r1 = BS.run_bs_client(ctx, case, sc=sc, boot=boot, frames=(pre.copy(), cur))
        r2 = BS.run_bs_client(ctx, case, sc=sc, boot=boot, frames=(pre.copy(), cur2))
    finally:
        boot.uninstall()
    a, b = r1.res, r2.res
    obl = T.compare_tables(a["unit_data"], b["unit_data"], "unit table", skip_row=lambda k: k.get("geographic_unit_fips") == f)
    ub = b["unit_data"].set_index("geographic_unit_fips")
    obl.append(("the added unit appears once, categorised unexpected",
                list(b["unit_data"]["geographic_unit_fips"]).count(f) == 1 and ub.loc[f, "unit_category"] == "unexpected"))
    added_unit = type("UU", (), dict(fips=f, state="AA", in_baseline=False, county=None, district=None, classification=None))()
    m, w = dem - gop, dem + gop
    for table in c01.LEVELS:
        if table not in a:
            continue
        lcols = c01.level_cols(case, table)
        key = tuple(P.group_key(added_unit, lv, "county") for lv in lcols)
        ta, tb = a[table], b[table]

        def is_g(k, key=key, lcols=lcols):
            return tuple(k.get(c) for c in lcols) == key

        obl += T.compare_tables(ta, tb, table, skip_row=is_g)
        ia = [i for i in range(len(ta)) if tuple(ta[c].iloc[i] for c in lcols) == key]
        ib = [i for i in range(len(tb)) if tuple(tb[c].iloc[i] for c in lcols) == key]
        obl.append(("%s has exactly one row for the added unit's group" % table, len(ib) == 1 and len(ia) <= 1))
        if len(ib) != 1:
            continue
        pt0 = ta["pred_turnout"].iloc[ia[0]] if ia else 0
        pm0 = ta["pred_margin"].iloc[ia[0]] if ia else 0
        rm0 = ta["results_margin"].iloc[ia[0]] if ia else 0
        pt1, pm1, rm1 = tb["pred_turnout"].iloc[ib[0]], tb["pred_margin"].iloc[ib[0]], tb["results_margin"].iloc[ib[0]]
        if any(sym.is_special(x) for x in (pt1, pm1, rm1)):
            obl.append(("%s: the group's values are numbers" % table, False))
            continue
        obl.append(("%s: predicted two-party turnout of the group grows by the unit's two-party votes" % table, T.cell_equal(pt1, pt0 + w)))
        obl.append(("%s: numerator of the predicted margin grows by the unit's margin" % table, T.cell_equal(pm1 * pt1, pm0 * pt0 + m)))
        obl.append(("%s: numerator of the counted margin grows by the unit's margin" % table, T.cell_equal(rm1 * pt1, rm0 * pt0 + m)))
    return obl, {"run2": P.tables_out(b)}


def run(ctx, case):
    if case["pi"] == "bootstrap":
        return run_bs(ctx, case)
    sc = P.build(ctx, case)
    pre, cur = sc.frames()
    # the added unit
    f = case["added"]
    row = {"postal_code": "AA", "geographic_unit_fips": f, "percent_expected_vote": ctx.real("pev_added", 0, 120)}
    votes = {}
    for c in [c for c in cur.columns if c.startswith("results_")]:
        votes[c] = sc.num("added_%s" % c[8:], 0, 10 ** 7)
        row[c] = votes[c]
    for c in votes:
        if c != "results_turnout" and "results_turnout" in votes:
            ctx.assume(votes[c] <= votes["results_turnout"])
    cur2 = pd.concat([cur, pd.DataFrame([row])], ignore_index=True)
    r1 = P.run_client(ctx, case, sc=sc, frames=(pre.copy(), cur))
    try:
        r2 = P.run_client(ctx, case, sc=sc, frames=(pre.copy(), cur2))
    except sym.Abort:
        raise
    a, b = r1.res, r2.res
    ut = case.get("unit_type", "county")
    obl = []
    # unit table: one more row, everything else unchanged
    obl += T.compare_tables(a["unit_data"], b["unit_data"], "unit table", skip_row=lambda k: k.get("geographic_unit_fips") == f)
    ub = b["unit_data"].set_index("geographic_unit_fips")
    obl.append(("the added unit appears once in the unit table", list(b["unit_data"]["geographic_unit_fips"]).count(f) == 1))
    if f in ub.index:
        obl.append(("the added unit is categorised unexpected", ub.loc[f, "unit_category"] == "unexpected"))
        for est in case["estimands"]:
            for c in [k for k in ub.columns if k.endswith("_" + est)]:
                obl.append(("added unit %s = its counted votes" % c, T.cell_equal(ub.loc[f, c], votes["results_" + est])))
    added_unit = type("UU", (), dict(fips=f, state="AA", in_baseline=False, county=None, district=None, classification=None))()
    for table in c01.LEVELS:
        if table not in a:
            obl.append(("%s present in both runs" % table, table not in b))
            continue
        lcols = c01.level_cols(case, table)
        key = tuple(P.group_key(added_unit, lv, ut) for lv in lcols)
        ta, tb = a[table], b[table]
        if any(k is None for k in key) or "county_classification" in lcols:
            # the unit cannot be attributed at this level: the table must not change at all
            obl += T.compare_tables(ta, tb, table)
            continue

        def is_g(k, key=key, lcols=lcols):
            return tuple(k.get(c) for c in lcols) == key

        obl += T.compare_tables(ta, tb, table, skip_row=is_g)
        ia = [i for i in range(len(ta)) if tuple(ta[c].iloc[i] for c in lcols) == key]
        ib = [i for i in range(len(tb)) if tuple(tb[c].iloc[i] for c in lcols) == key]
        obl.append(("%s has exactly one row for the added unit's group" % table, len(ib) == 1 and len(ia) <= 1))
        if len(ib) != 1:
            continue
        for est in case["estimands"]:
            v = votes["results_" + est]
            cols = ["results_%s" % est, "pred_%s" % est] + ["%s_%s_%s" % (bd, al, est) for al in case["alphas"]
                                                             for bd in ("lower", "upper")]
            for c in cols:
                before = ta[c].iloc[ia[0]] if ia else 0
                obl.append(("%s %s of the added unit's group grows by exactly its votes" % (table, c),
                            T.cell_equal(tb[c].iloc[ib[0]], before + v)))
        before = ta["reporting"].iloc[ia[0]] if ia else 0
        obl.append(("%s reporting count of the added unit's group unchanged" % table, T.cell_equal(tb["reporting"].iloc[ib[0]], before)))
    return obl, {"run1": P.tables_out(a), "run2": P.tables_out(b)}


def signature(case, entry):
    return "%s|%s|%s|%s" % (case["pi"], case["name"].split("_", 1)[1], entry["kind"], entry["name"][:90])
