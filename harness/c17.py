"""C17 - margin histories interpolate within bounds; irregular histories are discarded."""
import math

import numpy as np
import pandas as pd

from engine import sym
from engine.sym import AND, OR, NOT, AEQ, GE, LE, Sym

ID = "C17"
ENCODED = ["elexmodel.handlers.data.VersionedData:VersionedDataHandler.compute_versioned_margin_estimate"]
STUBS = ["none: the real function runs on symbolic version histories (numpy object arrays of z3 terms)"]
ASSUMES = ["dem, gop, other votes of every version are reals >= 0 (turnout = their sum); recorded expected-vote percentages in [0, P]",
           "float64 arithmetic modelled as exact real arithmetic",
           "at exactly 0% the function returns margin 0 (division by the percentage is skipped there); the value clauses are "
           "asserted for percentages >= 1 (see DESIGN.md, C17)"]
OUTSIDE = ["more versions than V or a latest percentage above P (the percent grid is materialised, so its length is concrete per path)",
           "NaN inputs (the function replaces them by 0 before anything else)"]
BOUNDS = {"quick": "one unit; V = 1 and V = 2 versions with latest percent <= 3; V = 3 with latest percent < 1 or non-monotone turnout; "
                   "every order / tie / zero pattern of the symbolic votes",
          "thorough": "adds V = 3 with latest percent <= 2 (all), V = 2 with latest percent <= 4, two units in one call"}
OPTS = {"quick": dict(case_timeout_s=900, solver_timeout_ms=30000, max_paths=200000),
        "thorough": dict(case_timeout_s=3300, solver_timeout_ms=60000, max_paths=2000000)}


def cases(tier):
    out = [dict(name="V1_P3", V=1, P=3, weight=1)]

    def split(name, V, P, weight, **kw):
        # the input space is partitioned (latest recorded percent in [k, k+1), turnout monotone or not) so that the
        # parts explore in parallel; together the parts cover the whole space
        for k in range(P + 1):
            for mono in (True, False):
                out.append(dict(name="%s_top%d_%s" % (name, k, "mono" if mono else "nonmono"), V=V, P=P, top=k, mono=mono,
                                weight=weight if mono else 1, **kw))

    split("V2_P3", 2, 3, 5)
    split("V3_P2", 3, 2, 20)
    if tier == "quick":
        # the two heaviest parts of V3_P2 (latest percent >= 1 with monotone turnout: 6-16 min of nlsat) are thorough-only
        out = [c for c in out if not (c["V"] == 3 and c.get("mono") and c.get("top", 0) >= 1)]
    if tier == "thorough":
        split("V2_P4", 2, 4, 50)
        split("V2_P3_two_units", 2, 3, 40, units=2)
    return out


def run(ctx, case):
    from elexmodel.handlers.data.VersionedData import VersionedDataHandler

    V, P = case["V"], case["P"]
    ctx.int_range = (0, P)
    nunits = case.get("units", 1)
    frames, hist = [], {}
    for u in range(nunits):
        f = "u%d" % u
        if u == 0:
            dem = [ctx.real("dem_%s_%d" % (f, i), 0, 10 ** 6) for i in range(V)]
            gop = [ctx.real("gop_%s_%d" % (f, i), 0, 10 ** 6) for i in range(V)]
            oth = [ctx.real("oth_%s_%d" % (f, i), 0, 10 ** 6) for i in range(V)]
            pev = [ctx.real("pev_%s_%d" % (f, i), 0, P) for i in range(V)]
        else:
            # further units have concrete histories (the symbolic unit must not be affected by, nor affect, its neighbours)
            dem = [10.0 * (i + 1) + u for i in range(V)]
            gop = [7.0 * (i + 1) for i in range(V)]
            oth = [1.0 * i for i in range(V)]
            pev = [float(min(P, i + 1)) for i in range(V)]
            if not getattr(ctx, "concrete", False):
                # Sym constants: plain floats inside object arrays would divide the Python way (ZeroDivisionError instead of nan)
                dem, gop, oth, pev = ([Sym(sym.RV(x)) for x in col_] for col_ in (dem, gop, oth, pev))
        turnout = [d + g + o for d, g, o in zip(dem, gop, oth)]
        w = [d + g for d, g in zip(dem, gop)]
        nm = [safe_div(d - g, ww) for d, g, ww in zip(dem, gop, w)]
        hist[f] = dict(dem=dem, gop=gop, turnout=turnout, w=w, pev=pev, nm=nm)
        if u == 0 and "top" in case:
            k = case["top"]
            ctx.assume(sym.AND(pev[-1] >= k, pev[-1] < k + 1) if k < P else (pev[-1] >= k))
            mono_c = sym.AND(*[turnout[i + 1] >= turnout[i] for i in range(V - 1)]) if V > 1 else True
            if V > 1:
                ctx.assume(mono_c if case["mono"] else sym.NOT(mono_c))
            elif not case["mono"]:
                raise sym.Abort("single version is always monotone")
        frames.append(pd.DataFrame({"geographic_unit_fips": [f] * V, "results_dem": obj(dem), "results_gop": obj(gop),
                                    "results_turnout": obj(turnout), "results_weights": obj(w), "percent_expected_vote": obj(pev),
                                    "results_normalized_margin": obj(nm), "last_modified": list(range(V))}))
    df = pd.concat(frames, ignore_index=True)
    h = VersionedDataHandler.__new__(VersionedDataHandler)
    out = h.compute_versioned_margin_estimate(df)
    obl = []
    for f, H in hist.items():
        rows = out[out["geographic_unit_fips"] == f]
        # ---- independent classification of the history
        t_last = H["turnout"][-1]
        monotone = all(bool(H["turnout"][i + 1] >= H["turnout"][i]) for i in range(V - 1)) or bool(t_last == 0)
        batches = []
        for i in range(V - 1):
            dw = H["w"][i + 1] - H["w"][i]
            dm = (H["dem"][i + 1] - H["dem"][i]) - (H["gop"][i + 1] - H["gop"][i])
            batches.append((dm, dw))
        # a batch is impossible when |delta margin| > |delta two-party votes| (incl. a change of margin without votes)
        bad_batch = False
        if monotone:
            for dm, dw in batches:
                if bool(abs_(dm) > abs_(dw)):
                    bad_batch = True
        regular = monotone and not bad_batch
        err = rows["error_type"].tolist()
        if not regular:
            obl.append(("%s: irregular history -> error type recorded on every row" % f,
                        len(err) > 0 and all(e != "none" for e in err)))
            obl.append(("%s: irregular history -> every correction missing" % f,
                        all(isnan(v) for v in rows["est_correction"].tolist()) and all(isnan(v) for v in rows["est_margin"].tolist())))
            continue
        obl.append(("%s: regular history -> no error type" % f, all(e == "none" for e in err)))
        if not all(e == "none" for e in err):
            continue
        # corrected expected vote of every version and the latest percent
        cpev = [safe_div(t, t_last) * H["pev"][-1] for t in H["turnout"]]
        mx = cpev[0]
        for c in cpev[1:]:
            mx = sym.smax(mx, c)
        percs = [int(p) for p in rows["percent_expected_vote"].tolist()]
        top = percs[-1] if percs else -1
        obl.append(("%s: one row for every whole percent from 0 to the latest percent" % f,
                    percs == list(range(top + 1)) and top >= 0))
        obl.append(("%s: the last row is the whole part of the latest percent" % f, AND(LE(top, mx), sym.LT(mx, top + 1))))
        final = H["nm"][-1]
        for j, p in enumerate(percs):
            est = rows["est_margin"].iloc[j]
            cor = rows["est_correction"].iloc[j]
            if sym.is_special(est) or sym.is_special(cor):
                obl.append(("%s p=%d: estimate is a number" % (f, p), False))
                continue
            obl.append(("%s p=%d: correction = final margin - imputed margin" % (f, p), AEQ(cor, final - est)))
            if p == 0:
                continue
            obl.append(("%s p=%d: imputed margin within [-1, 1]" % (f, p), AND(GE(est, -1), LE(est, 1))))
            # last version observed at or before p (in corrected percent), -1 if none
            k = -1
            for i in range(V):
                if bool(cpev[i] <= p):
                    k = i
            if k == -1:
                obl.append(("%s p=%d: before the first observation -> first observed margin" % (f, p), AEQ(est, H["nm"][0])))
            else:
                last_m = H["nm"][k]
                if k + 1 < V:
                    dm, dw = batches[k]
                    nxt = safe_div(dm, dw)
                else:
                    nxt = 0  # no further batch: numpy's diff(append=last) gives 0/0 -> 0
                lo_, hi_ = sym.smin(last_m, nxt), sym.smax(last_m, nxt)
                obl.append(("%s p=%d: convex combination of last observed margin and next batch margin" % (f, p),
                            AND(GE(est, lo_), LE(est, hi_))))
    keep = out[["geographic_unit_fips", "percent_expected_vote", "est_margin", "est_correction", "error_type"]]
    return obl, {"estimates": keep}


def obj(vals):
    a = np.empty(len(vals), dtype=object)
    a[:] = vals
    if not any(isinstance(v, Sym) for v in vals):
        return a.astype(float)
    return a


def safe_div(a, b):
    if isinstance(b, Sym):
        if bool(b == 0):
            return 0
        return a / b
    return 0 if b == 0 else a / b


def abs_(x):
    return abs(x)


def isnan(v):
    return isinstance(v, (float, np.floating)) and v != v


def signature(case, entry):
    return "%s|%s" % (entry["kind"], entry["name"].split(": ", 1)[-1])
