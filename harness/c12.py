"""C12 - estimates are a deterministic function of the arguments (self-composition over call histories)."""
import copy

import numpy as np
import pandas as pd

from engine import sym
from . import pipeline as P
from . import tworun as T

ID = "C12"
ENCODED = P.ENCODED_PIPELINE + ["elexmodel.utils.math_utils:boot_sigma", "elexmodel.handlers.config:ConfigHandler.get_features",
                                 "elexmodel.models.BootstrapElectionModel:BootstrapElectionModel.__init__",
                                 "elexmodel.models.BootstrapElectionModel:BootstrapElectionModel._bootstrap_errors",
                                 "elexmodel.models.BootstrapElectionModel:BootstrapElectionModel._bootstrap_epsilons",
                                 "elexmodel.models.BootstrapElectionModel:BootstrapElectionModel._bootstrap_deltas",
                                 "elexmodel.models.BootstrapElectionModel:BootstrapElectionModel._strata_pit",
                                 "elexmodel.models.BootstrapElectionModel:BootstrapElectionModel._sample_test_delta"]
STUBS = P.STUBS_PIPELINE + [
    "entropy model: scipy.stats.bootstrap called WITHOUT random_state / rng returns a fresh unconstrained positive value on every "
    "call (so outputs that depend on it can differ between equal calls); called with a seed / seeded generator it is an "
    "uninterpreted function of (data, confidence level, seed, generator state)",
    "DataFrame.sample(random_state=seed) is the real pandas implementation (deterministic)", P.CUT_STUB_NOTE,
    "bootstrap draws: numpy.random.default_rng(seed) returns a fake generator whose draws are uninterpreted functions of (seed, "
    "position in the stream, arguments); the module-level numpy.random.* functions are unseeded sources (fresh value per call); the "
    "per-stratum ppf / cdf are uninterpreted functions"]
ASSUMES = P.ASSUMES_PIPELINE
OUTSIDE = P.OUTSIDE_PIPELINE + ["'under different hash seeds' is covered differentially (three interpreters with different PYTHONHASHSEED run the "
                                "same symbolic path and its concrete replay; output terms, stub arguments and floats are compared), for three "
                                "cases and one path each, not for every path", "bootstrap: cross-validation folds (cv_lambda) and the multi-contest branch of "
                                "_sample_test_epsilon (np.corrcoef / block_diag on symbolic values) are not executed"]
BOUNDS = {"quick": "NP (4 reporting) and GA (7 reporting), 2 nonreporting, 1 unexpected; histories on one client: [R, R], [R, R', R] with R' a "
                   "different estimator / alphas / estimands / aggregates, and fresh client vs used client; same config object reused; seed "
                   "setting 0; callers that omit model_parameters: [R] vs [bootstrap run, other estimator, R] from a fresh process state; "
                   "two calls that are handed the same baseline / feed DataFrame objects (NP, GA, bootstrap); "
                   "bootstrap draws of two models built from the same seed setting (2 training units, 1 outstanding unit, B = 2, seeds 0 and 7)",
          "thorough": "adds 2 estimands and histories of 4 calls"}
OPTS = {"quick": dict(case_timeout_s=900, solver_timeout_ms=30000), "thorough": dict(case_timeout_s=3000, solver_timeout_ms=60000)}


def cases(tier):
    out = []
    aggs = ["postal_code", "county_fips", "unit"]
    for pi, nrep, a1 in (("nonparametric", 4, 0.5), ("gaussian", 7, 0.7)):
        other_pi = "gaussian" if pi == "nonparametric" else "nonparametric"
        R = dict(pi=pi, alphas=[a1], estimands=["turnout"], aggregates=aggs)
        others = {
            "same": None,
            "other_estimator": dict(pi=other_pi, alphas=[0.5 if other_pi == "nonparametric" else 0.7], estimands=["turnout"], aggregates=aggs),
            "other_estimand": dict(pi=pi, alphas=[a1], estimands=["dem", "turnout"], aggregates=aggs),
            "other_aggregates": dict(pi=pi, alphas=[a1], estimands=["turnout"], aggregates=["postal_code", "county_classification", "unit"]),
        }
        for nm, Rp in others.items():
            out.append(dict(name="%s_history_%s" % (pi[:2], nm), units=P.standard_units(max(nrep, 7), 2, [P.U("c2_x0", "unexp")], cls=True),
                            R=R, Rp=Rp, cut_calibration=True, weight=10))
        # the seed setting 0 is a valid seed like any other
        out.append(dict(name="%s_seed0" % pi[:2], units=P.standard_units(max(nrep, 7), 2, [P.U("c2_x0", "unexp")], cls=True),
                        R=dict(R, model_parameters={"seed": 0}), Rp=None, cut_calibration=True, weight=10))
        # callers that leave model_parameters out: a run after other runs in the same process = the run in a fresh process
        out.append(dict(name="%s_process_history" % pi[:2], kind="process", units=P.standard_units(max(nrep, 7), 2, [P.U("c2_x0", "unexp")], cls=True),
                        R=R, other_pi=other_pi, cut_calibration=True, weight=20))
        out.append(dict(name="%s_fresh_vs_used" % pi[:2], units=P.standard_units(max(nrep, 7), 2, [P.U("c2_x0", "unexp")], cls=True),
                        R=R, Rp=others["other_estimator"], fresh=True, cut_calibration=True, weight=10))
    # the caller hands the very same data frame objects (baseline and feed) to two successive calls
    for pi, nrep, a1 in (("nonparametric", 4, 0.5), ("gaussian", 7, 0.7)):
        out.append(dict(name="%s_shared_frames" % pi[:2], kind="shared", units=P.standard_units(nrep, 2, [P.U("c2_x0", "unexp")], cls=True),
                        R=dict(pi=pi, alphas=[a1], estimands=["dem", "turnout"], aggregates=aggs), cut_calibration=True, weight=10))
    from . import bs as BS

    out.append(dict(name="bs_shared_frames", kind="shared", units=BS.margin_units(10, 2, 1), B=2,
                    R=dict(pi="bootstrap", alphas=[0.9], estimands=["margin"], aggregates=aggs), weight=20))
    out.append(dict(name="bs_shared_frames_updated_feed", kind="shared", update=True, units=BS.margin_units(10, 2, 1), B=2,
                    R=dict(pi="bootstrap", alphas=[0.9], estimands=["margin"], aggregates=aggs), weight=20))
    out.append(dict(name="no_shared_frames_updated_feed", kind="shared", update=True,
                    units=P.standard_units(4, 2, [P.U("c2_x0", "unexp")], cls=True),
                    R=dict(pi="nonparametric", alphas=[0.5], estimands=["dem", "turnout"], aggregates=aggs), cut_calibration=True, weight=10))
    for seed in (0, 7):
        out.append(dict(name="bootstrap_draws_seed%d" % seed, kind="bs_entropy", seed=seed, R=dict(pi="bootstrap"), weight=15))
    return out


def fresh_process_state():
    """emulate a fresh interpreter for what the client keeps at module / function level: the mutable default arguments"""
    from elexmodel.client import ModelClient

    for fn in (ModelClient.get_estimates, ModelClient.get_national_summary_votes_estimates):
        for d in (fn.__defaults__ or ()):
            if isinstance(d, dict):
                d.clear()
        for d in ((fn.__kwdefaults__ or {}).values()):
            if isinstance(d, dict):
                d.clear()


def run_process(ctx, case):
    """[R] in a fresh process  ==  [bootstrap run, other-estimator run, R] in a fresh process, all without model_parameters"""
    from elexmodel.client import ModelClient
    from . import bs as BS

    sc = P.build(ctx, dict(case, estimands=["dem", "turnout"]))
    pre, cur = sc.frames()
    base = dict(case, omit_model_parameters=True)
    fresh_process_state()
    a = P.run_client(ctx, dict(base, **case["R"]), sc=sc, frames=(pre.copy(), cur.copy())).res
    a = {k: v.copy() for k, v in a.items()}
    fresh_process_state()
    # a bootstrap run of another election first (its numeric core is stubbed; what matters is what it leaves behind)
    bcase = dict(units=BS.margin_units(10, 1, 0), B=2, alphas=[0.9], aggregates=["postal_code", "unit"], omit_model_parameters=True)
    boot = BS.BootStub(ctx, 2, tag="hist_").install()
    try:
        BS.run_bs_client(ctx, bcase, boot=boot)
    finally:
        boot.uninstall()
    other = dict(pi=case["other_pi"], alphas=[0.5 if case["other_pi"] == "nonparametric" else 0.7], estimands=["turnout"],
                 aggregates=case["R"]["aggregates"])
    P.run_client(ctx, dict(base, **other), sc=sc, frames=(pre.copy(), cur.copy()))
    b = P.run_client(ctx, dict(base, **case["R"]), sc=sc, frames=(pre.copy(), cur.copy())).res
    fresh_process_state()
    obl = [("same set of tables", sorted(a) == sorted(b))]
    for t in sorted(set(a) & set(b)):
        obl += T.compare_tables(a[t], b[t], t)
    return obl, {"alone": P.tables_out(a), "after_others": P.tables_out(b)}


def run_shared(ctx, case):
    """two calls with the SAME baseline and feed DataFrame objects (what a long-running caller does) give the same tables"""
    from . import bs as BS

    bs_mode = case["R"]["pi"] == "bootstrap"
    c = dict(case, **case["R"])
    results = []
    if bs_mode:
        sc = BS.build_bs(ctx, c)
        pre, cur = sc.frames()
        boot = BS.BootStub(ctx, case["B"]).install()
        try:
            for _ in range(2):
                results.append({k: v.copy() for k, v in BS.run_bs_client(ctx, c, sc=sc, boot=boot, frames=(pre, cur)).res.items()})
        finally:
            boot.uninstall()
    else:
        sc = P.build(ctx, c)
        pre, cur = sc.frames()
        for _ in range(2):
            results.append({k: v.copy() for k, v in P.run_client(ctx, c, sc=sc, frames=(pre, cur)).res.items()})
    if case.get("update"):
        # the caller now updates raw counts of the feed IN PLACE (new votes arrived) and asks again with the same objects;
        # the answer must be the one a caller with freshly built frames of the same content gets
        raw = [col_ for col_ in ("results_dem", "results_gop", "results_turnout") if col_ in cur.columns]
        i0 = 0
        for col_ in raw:
            v = cur[col_].iloc[i0]
            cur.loc[cur.index[i0], col_] = v + (40 if col_ != "results_gop" else 3)
        fresh_pre, fresh_cur = pre[[col_ for col_ in pre.columns if col_ in sc.frames()[0].columns]].copy(), cur[
            [col_ for col_ in cur.columns if col_ in ["postal_code", "geographic_unit_fips", "percent_expected_vote"] + raw]].copy()
        if bs_mode:
            boot = BS.BootStub(ctx, case["B"]).install()
            boot.state = None
            try:
                same_obj = {k: v.copy() for k, v in BS.run_bs_client(ctx, c, sc=sc, boot=boot, frames=(pre, cur)).res.items()}
                fresh = {k: v.copy() for k, v in BS.run_bs_client(ctx, c, sc=sc, boot=boot, frames=(fresh_pre, fresh_cur)).res.items()}
            finally:
                boot.uninstall()
        else:
            same_obj = {k: v.copy() for k, v in P.run_client(ctx, c, sc=sc, frames=(pre, cur)).res.items()}
            fresh = {k: v.copy() for k, v in P.run_client(ctx, c, sc=sc, frames=(fresh_pre, fresh_cur)).res.items()}
        obl = [("same set of tables", sorted(same_obj) == sorted(fresh))]
        for t in sorted(set(same_obj) & set(fresh)):
            obl += T.compare_tables(fresh[t], same_obj[t], "after an in-place update of the feed: " + t)
        return obl, {"fresh": P.tables_out(fresh)}
    a, b = results
    obl = [("same set of tables", sorted(a) == sorted(b))]
    if bs_mode:
        # the bootstrap's numeric core is stubbed here, so also compare what it is handed in the two calls
        obl.append(("the bootstrap core is invoked once per call", len(boot.inputs) == 2))
        if len(boot.inputs) == 2:
            for nm, i in (("reporting", 0), ("nonreporting", 1)):
                fa, fb = boot.inputs[0][i], boot.inputs[1][i]
                for col_ in ("baseline_weights", "turnout_factor", "results_normalized_margin", "baseline_normalized_margin",
                             "last_election_results_margin", "results_weights"):
                    if col_ in fa.columns and col_ in fb.columns:
                        same = all(bool(T.cell_equal(x, y)) if not isinstance(T.cell_equal(x, y), sym.SymBool) else True
                                   for x, y in zip(fa[col_].tolist(), fb[col_].tolist()))
                        obl.append(("%s units: %s handed to the bootstrap is the same in both calls" % (nm, col_), same))
    for t in sorted(set(a) & set(b)):
        obl += T.compare_tables(a[t], b[t], t)
    return obl, {"first": P.tables_out(a), "second": P.tables_out(b)}


def run(ctx, case):
    if case.get("kind") == "shared":
        return run_shared(ctx, case)
    if case.get("kind") == "bs_entropy":
        return run_bs_entropy(ctx, case)
    if case.get("kind") == "process":
        return run_process(ctx, case)
    from elexmodel.client import ModelClient

    sc = P.build(ctx, dict(case, estimands=["dem", "turnout"]))
    pre, cur = sc.frames()
    client = ModelClient()
    config = None
    results = []
    reqs = [case["R"]] + ([case["Rp"]] if case["Rp"] else []) + [case["R"]]
    for i, req in enumerate(reqs):
        c = dict(case, **req)
        use_client = client
        if case.get("fresh") and i == len(reqs) - 1:
            use_client = ModelClient()
        r = P.run_client(ctx, c, sc=sc, frames=(pre.copy(), cur.copy()), client=use_client, config=config)
        config = r.config  # the same config object is handed to every call, as a long-running caller would
        results.append({k: v.copy() for k, v in r.res.items()})
    a, b = results[0], results[-1]
    obl = [("same set of tables", sorted(a) == sorted(b))]
    for t in sorted(set(a) & set(b)):
        obl += T.compare_tables(a[t], b[t], t)
    return obl, {"first": P.tables_out(a), "last": P.tables_out(b)}


def signature(case, entry):
    pi = case["R"]["pi"]
    nm = entry["name"]
    # group by table/column family rather than by row
    parts = nm.split(" ")
    fam = "%s %s" % (parts[0], parts[-2] if len(parts) > 2 else "")
    return "%s|%s|%s" % (pi, entry["kind"], fam)


# ------------------------------------------------------------------------------------------------ bootstrap entropy model
class FakeGen:
    """stands in for numpy.random.Generator: every draw is an uninterpreted function of (seed, method, how many draws were made
    before, the arguments).  The module-level legacy functions (numpy.random.uniform, ...) are replaced by UNSEEDED sources that
    return a fresh unconstrained value on every call."""

    def __init__(self, ctx, seed, fresh=False):
        self.ctx, self.seed, self.n, self.fresh = ctx, seed, 0, fresh

    def _draw(self, method, shape, args):
        from engine import stubs as ST

        self.n += 1
        size = int(np.prod(shape)) if shape else 1
        if self.fresh or self.seed is None:
            vals = [self.ctx.stub_real("unseeded_%s_%d_%d" % (method, self.n, j)) for j in range(size)]
        else:
            a = [sym.RV(int(self.seed)), sym.RV(self.n)] + ST.cells(*[x for x in args if x is not None])
            vals = ST.stub_values(self.ctx, "RNG_%s_%s" % (method, "x".join(map(str, shape)) or "s"), a, size, label="rng_%s%d" % (method, self.n))
        out = np.empty(size, dtype=object if not getattr(self.ctx, "concrete", False) else float)
        out[:] = vals
        return out.reshape(shape) if shape else out[0]

    def choice(self, a, size=None, replace=True, **kw):
        a = np.asarray(a, dtype=object)
        shape = tuple(np.atleast_1d(size)) + a.shape[1:]
        return self._draw("choice", shape, [a])

    def uniform(self, low=0.0, high=1.0, size=None):
        return self._draw("uniform", tuple(np.atleast_1d(size)) if size is not None else (), [])

    def multivariate_normal(self, mean, cov, size=None, **kw):
        mean = np.asarray(mean, dtype=object)
        shape = (tuple(np.atleast_1d(size)) if size is not None else ()) + mean.shape
        return self._draw("mvn", shape, [mean, np.asarray(cov, dtype=object)])

    def normal(self, loc=0.0, scale=1.0, size=None):
        return self._draw("normal", tuple(np.atleast_1d(size)) if size is not None else (), [np.asarray(loc, dtype=object), np.asarray(scale, dtype=object)])

    def shuffle(self, x, axis=0):
        # a fixed permutation per (seed, position in the stream): reverse on odd draws
        self.n += 1
        if self.fresh or self.seed is None:
            k = self.ctx.choose("unseeded_shuffle_%d" % self.n, 2)
        else:
            k = (int(self.seed) + self.n) % 2
        if k:
            x[:] = x[::-1].copy()


def run_bs_entropy(ctx, case):
    """two bootstrap models built from the same seed setting draw the same bootstrap errors"""
    import numpy
    from elexmodel.models.BootstrapElectionModel import BootstrapElectionModel as BEM
    from engine import stubs as ST

    B = 2
    seed = case.get("seed", 7)
    orig_rng = numpy.random.default_rng
    legacy = {}
    unseeded = FakeGen(ctx, None, fresh=True)
    for name in ("choice", "uniform", "multivariate_normal", "normal", "shuffle"):
        legacy[name] = getattr(numpy.random, name)
        setattr(numpy.random, name, getattr(unseeded, name))
    numpy.random.default_rng = lambda seed=None: FakeGen(ctx, seed)
    orig_zeros = numpy.zeros
    if not getattr(ctx, "concrete", False):
        # the sampling functions preallocate float result arrays and assign into them: object arrays in symbolic mode
        def zeros(shape, dtype=float, **kw):
            if dtype in (float, None, numpy.float64):
                a = numpy.empty(shape, dtype=object)
                a[...] = 0.0
                return a
            return orig_zeros(shape, dtype=dtype, **kw)

        numpy.zeros = zeros
    outs = []
    try:
        # inputs shared by both runs
        n_train, n_test = 2, 1
        eps_y = np.empty((1, 1), dtype=object); eps_y[0, 0] = ctx.real("eps_y", -1, 1)
        eps_z = np.empty((1, 1), dtype=object); eps_z[0, 0] = ctx.real("eps_z", -1, 1)
        d_y = np.array([ctx.real("dy_%d" % i, -1, 1) for i in range(n_train)], dtype=object)
        d_z = np.array([ctx.real("dz_%d" % i, -1, 1) for i in range(n_train)], dtype=object)
        x_strata = pd.DataFrame({"intercept": [1, 1]})
        agg_train = np.ones((n_train, 1))

        def ufun(name):
            def f(p):
                p_arr = np.asarray(p, dtype=object)
                flat = p_arr.ravel()
                if not isinstance(p, np.ndarray):
                    # concrete percentile (the inter-quartile range used for the contest-level variance): a fixed monotone map
                    conc = np.array([2.0 * float(v) - 1.0 for v in flat])
                    return conc.reshape(p_arr.shape) if p_arr.shape else float(conc[0])
                vals = [ST.stub_values(ctx, name, ST.cells([v]), 1, label=name)[0] for v in flat]
                out = np.empty(len(flat), dtype=object if not getattr(ctx, "concrete", False) else float)
                out[:] = vals
                return out.reshape(p_arr.shape) if p_arr.shape else out[0]

            return f

        key = (1,)
        ppf_y, ppf_z, cdf_y, cdf_z = {key: ufun("PPFY")}, {key: ufun("PPFZ")}, {key: ufun("CDFY")}, {key: ufun("CDFZ")}
        for _ in range(2):
            m = BEM({"features": ["baseline_normalized_margin"], "B": B, "lambda_": 1.0, "seed": seed})
            (ey, ez), (dy, dz) = m._bootstrap_errors(eps_y, eps_z, d_y, d_z, x_strata, cdf_y, cdf_z, ppf_y, ppf_z, agg_train)
            ty, tz = m._sample_test_delta(pd.DataFrame({"intercept": [1]}), ppf_y, ppf_z)
            outs.append(dict(ey=ey, ez=ez, dy=dy, dz=dz, ty=ty, tz=tz))
    finally:
        numpy.random.default_rng = orig_rng
        numpy.zeros = orig_zeros
        for name, f in legacy.items():
            setattr(numpy.random, name, f)
    a, b = outs
    obl = []
    for k in a:
        xa, xb = np.asarray(a[k], dtype=object).ravel(), np.asarray(b[k], dtype=object).ravel()
        obl.append(("bootstrap draws %s have the same shape in both runs" % k, xa.shape == xb.shape))
        for i, (u, v) in enumerate(zip(xa, xb)):
            obl.append(("bootstrap draw %s[%d] is a function of the seed setting only" % (k, i), T.cell_equal(u, v)))
    return obl, {}


# ------------------------------------------------------------------------------------------------ hash seeds
HASHSEED_CASES = ["ga_history_same", "no_history_same", "ga_history_other_aggregates"]


def main(tier, seed, jobs, only):
    """the ordinary cases, plus: the same symbolic path and its concrete replay in interpreters started with different
    PYTHONHASHSEED must give the same output terms, the same arguments to the nondeterministic stubs and the same floats"""
    import json
    import os
    import subprocess
    import sys
    import time
    from engine import harness as H

    t0 = time.time()
    code, ev, lines = H.run_module(__name__, tier, seed, jobs=jobs, only=only)
    cov = ev["coverage"]
    results = []
    for cname in HASHSEED_CASES:
        if only and not __import__("re").search(only, cname + "_hashseed"):
            continue
        digests = []
        for hs in ("1", "2", "77"):
            env = dict(os.environ, PYTHONHASHSEED=hs)
            try:
                p = subprocess.run([sys.executable, "-m", "engine.hashdiff", __name__, cname, tier], capture_output=True, text=True,
                                   timeout=600, env=env, cwd=H.VERIF)
                line = next((l for l in p.stdout.splitlines() if l.startswith("HASHDIFF ")), None)
                digests.append(json.loads(line[9:]) if line else None)
            except subprocess.TimeoutExpired:
                digests.append(None)
        results.append((cname, digests))
    cov["hash_seed_differential"] = [dict(case=c, digests=d) for c, d in results]
    for cname, d in results:
        cov["obligations"] += 1
        if any(x is None for x in d):
            cov.setdefault("inconclusive", []).append("hash-seed run of %s did not finish" % cname)
            code = code if code == 1 else 2
            continue
        same_sym = len({(x["symbolic"], x["stubs"], x["key_order"], json.dumps(x["seeds"])) for x in d}) == 1
        same_conc = len({(x["concrete"], json.dumps(x["seeds"])) for x in d}) == 1
        if same_sym and same_conc:
            cov["discharged"] += 1
            continue
        if not same_conc:
            path = os.path.join(H.VERIF, "replays", "C12_hashseed_%s.json" % cname)
            os.makedirs(os.path.dirname(path), exist_ok=True)
            json.dump(dict(property=ID, module=__name__, hash_seed_differential=dict(case=cname, digests=d,
                      how="PYTHONHASHSEED=<1|2|77> ./.venv/bin/python -m engine.hashdiff harness.c12 %s %s" % (cname, tier))), open(path, "w"), indent=1)
            lines.append("VIOLATION property=C12 replay=%s" % path)
            lines.append("  hash-seed|%s|outputs or resampling seeds differ between interpreters with different PYTHONHASHSEED" % cname)
            ev["violations"] = ev.get("violations", 0) + 1
            code = 1
        else:
            cov.setdefault("inconclusive", []).append("hash-seed: symbolic digests of %s differ but the concrete replays agree" % cname)
            code = code if code == 1 else 2
    cov["exhaustive"] = code == 0
    ev["wall_s"] = round(time.time() - t0, 2)
    return code, ev, lines
