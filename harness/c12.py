"""C12 - estimates are a deterministic function of the arguments (self-composition over call histories)."""
import copy

import pandas as pd

from engine import sym
from . import pipeline as P
from . import tworun as T

ID = "C12"
ENCODED = P.ENCODED_PIPELINE + ["elexmodel.utils.math_utils:boot_sigma", "elexmodel.handlers.config:ConfigHandler.get_features"]
STUBS = P.STUBS_PIPELINE + [
    "entropy model: scipy.stats.bootstrap called WITHOUT random_state / rng returns a fresh unconstrained positive value on every "
    "call (so outputs that depend on it can differ between equal calls); called with a seed / seeded generator it is an "
    "uninterpreted function of (data, confidence level, seed, generator state)",
    "DataFrame.sample(random_state=seed) is the real pandas implementation (deterministic)", P.CUT_STUB_NOTE]
ASSUMES = P.ASSUMES_PIPELINE
OUTSIDE = P.OUTSIDE_PIPELINE + ["'under different hash seeds': set / dict iteration order inside CPython is not observable to the "
                                "symbolic proxies - NOT covered", "bootstrap estimator: its generator is created from the seed "
                                "setting in __init__ (covered by the bootstrap history cases of C08)"]
BOUNDS = {"quick": "NP (4 reporting) and GA (7 reporting), 2 nonreporting, 1 unexpected; histories on one client: [R, R], [R, R', R] with R' a "
                   "different estimator / alphas / estimands / aggregates, and fresh client vs used client; same config object reused; seed "
                   "setting 0; callers that omit model_parameters: [R] vs [bootstrap run, other estimator, R] from a fresh process state",
          "thorough": "adds 2 estimands and histories of 4 calls"}
OPTS = {"quick": dict(case_timeout_s=900, solver_timeout_ms=30000), "thorough": dict(case_timeout_s=3000, solver_timeout_ms=60000)}


def cases(tier):
    out = []
    aggs = ["postal_code", "county_fips", "unit"]
    for pi, nrep, a1 in (("nonparametric", 4, 0.5), ("gaussian", 7, 0.7)):
        other_pi = "gaussian" if pi == "nonparametric" else "nonparametric"
        R = dict(pi=pi, alphas=[a1], estimands=["turnout"], aggregates=aggs)
        others = {
            "same": None,
            "other_estimator": dict(pi=other_pi, alphas=[0.5 if other_pi == "nonparametric" else 0.7], estimands=["turnout"], aggregates=aggs),
            "other_estimand": dict(pi=pi, alphas=[a1], estimands=["dem", "turnout"], aggregates=aggs),
            "other_aggregates": dict(pi=pi, alphas=[a1], estimands=["turnout"], aggregates=["postal_code", "county_classification", "unit"]),
        }
        for nm, Rp in others.items():
            out.append(dict(name="%s_history_%s" % (pi[:2], nm), units=P.standard_units(max(nrep, 7), 2, [P.U("c2_x0", "unexp")], cls=True),
                            R=R, Rp=Rp, cut_calibration=True, weight=10))
        # the seed setting 0 is a valid seed like any other
        out.append(dict(name="%s_seed0" % pi[:2], units=P.standard_units(max(nrep, 7), 2, [P.U("c2_x0", "unexp")], cls=True),
                        R=dict(R, model_parameters={"seed": 0}), Rp=None, cut_calibration=True, weight=10))
        # callers that leave model_parameters out: a run after other runs in the same process = the run in a fresh process
        out.append(dict(name="%s_process_history" % pi[:2], kind="process", units=P.standard_units(max(nrep, 7), 2, [P.U("c2_x0", "unexp")], cls=True),
                        R=R, other_pi=other_pi, cut_calibration=True, weight=20))
        out.append(dict(name="%s_fresh_vs_used" % pi[:2], units=P.standard_units(max(nrep, 7), 2, [P.U("c2_x0", "unexp")], cls=True),
                        R=R, Rp=others["other_estimator"], fresh=True, cut_calibration=True, weight=10))
    return out


def fresh_process_state():
    """emulate a fresh interpreter for what the client keeps at module / function level: the mutable default arguments"""
    from elexmodel.client import ModelClient

    for fn in (ModelClient.get_estimates, ModelClient.get_national_summary_votes_estimates):
        for d in (fn.__defaults__ or ()):
            if isinstance(d, dict):
                d.clear()
        for d in ((fn.__kwdefaults__ or {}).values()):
            if isinstance(d, dict):
                d.clear()


def run_process(ctx, case):
    """[R] in a fresh process  ==  [bootstrap run, other-estimator run, R] in a fresh process, all without model_parameters"""
    from elexmodel.client import ModelClient
    from . import bs as BS

    sc = P.build(ctx, dict(case, estimands=["dem", "turnout"]))
    pre, cur = sc.frames()
    base = dict(case, omit_model_parameters=True)
    fresh_process_state()
    a = P.run_client(ctx, dict(base, **case["R"]), sc=sc, frames=(pre.copy(), cur.copy())).res
    a = {k: v.copy() for k, v in a.items()}
    fresh_process_state()
    # a bootstrap run of another election first (its numeric core is stubbed; what matters is what it leaves behind)
    bcase = dict(units=BS.margin_units(10, 1, 0), B=2, alphas=[0.9], aggregates=["postal_code", "unit"], omit_model_parameters=True)
    boot = BS.BootStub(ctx, 2, tag="hist_").install()
    try:
        BS.run_bs_client(ctx, bcase, boot=boot)
    finally:
        boot.uninstall()
    other = dict(pi=case["other_pi"], alphas=[0.5 if case["other_pi"] == "nonparametric" else 0.7], estimands=["turnout"],
                 aggregates=case["R"]["aggregates"])
    P.run_client(ctx, dict(base, **other), sc=sc, frames=(pre.copy(), cur.copy()))
    b = P.run_client(ctx, dict(base, **case["R"]), sc=sc, frames=(pre.copy(), cur.copy())).res
    fresh_process_state()
    obl = [("same set of tables", sorted(a) == sorted(b))]
    for t in sorted(set(a) & set(b)):
        obl += T.compare_tables(a[t], b[t], t)
    return obl, {"alone": P.tables_out(a), "after_others": P.tables_out(b)}


def run(ctx, case):
    if case.get("kind") == "process":
        return run_process(ctx, case)
    from elexmodel.client import ModelClient

    sc = P.build(ctx, dict(case, estimands=["dem", "turnout"]))
    pre, cur = sc.frames()
    client = ModelClient()
    config = None
    results = []
    reqs = [case["R"]] + ([case["Rp"]] if case["Rp"] else []) + [case["R"]]
    for i, req in enumerate(reqs):
        c = dict(case, **req)
        use_client = client
        if case.get("fresh") and i == len(reqs) - 1:
            use_client = ModelClient()
        r = P.run_client(ctx, c, sc=sc, frames=(pre.copy(), cur.copy()), client=use_client, config=config)
        config = r.config  # the same config object is handed to every call, as a long-running caller would
        results.append({k: v.copy() for k, v in r.res.items()})
    a, b = results[0], results[-1]
    obl = [("same set of tables", sorted(a) == sorted(b))]
    for t in sorted(set(a) & set(b)):
        obl += T.compare_tables(a[t], b[t], t)
    return obl, {"first": P.tables_out(a), "last": P.tables_out(b)}


def signature(case, entry):
    pi = case["R"]["pi"]
    nm = entry["name"]
    # group by table/column family rather than by row
    parts = nm.split(" ")
    fam = "%s %s" % (parts[0], parts[-2] if len(parts) > 2 else "")
    return "%s|%s|%s" % (pi, entry["kind"], fam)
