"""C12 - estimates are a deterministic function of the arguments (self-composition over call histories)."""
import copy

import pandas as pd

from engine import sym
from . import pipeline as P
from . import tworun as T

ID = "C12"
ENCODED = P.ENCODED_PIPELINE + ["elexmodel.utils.math_utils:boot_sigma", "elexmodel.handlers.config:ConfigHandler.get_features"]
STUBS = P.STUBS_PIPELINE + [
    "entropy model: scipy.stats.bootstrap called WITHOUT random_state / rng returns a fresh unconstrained positive value on every "
    "call (so outputs that depend on it can differ between equal calls); called with a seed / seeded generator it is an "
    "uninterpreted function of (data, confidence level, seed, generator state)",
    "DataFrame.sample(random_state=seed) is the real pandas implementation (deterministic)", P.CUT_STUB_NOTE]
ASSUMES = P.ASSUMES_PIPELINE
OUTSIDE = P.OUTSIDE_PIPELINE + ["'under different hash seeds': set / dict iteration order inside CPython is not observable to the "
                                "symbolic proxies - NOT covered", "bootstrap estimator: its generator is created from the seed "
                                "setting in __init__ (covered by the bootstrap history cases of C08)"]
BOUNDS = {"quick": "NP (4 reporting) and GA (7 reporting), 2 nonreporting, 1 unexpected; histories on one client: [R, R], [R, R', R] with R' a "
                   "different estimator / alphas / estimands / aggregates, and fresh client vs used client; same config object reused",
          "thorough": "adds 2 estimands and histories of 4 calls"}
OPTS = {"quick": dict(case_timeout_s=900, solver_timeout_ms=30000), "thorough": dict(case_timeout_s=3000, solver_timeout_ms=60000)}


def cases(tier):
    out = []
    aggs = ["postal_code", "county_fips", "unit"]
    for pi, nrep, a1 in (("nonparametric", 4, 0.5), ("gaussian", 7, 0.7)):
        other_pi = "gaussian" if pi == "nonparametric" else "nonparametric"
        R = dict(pi=pi, alphas=[a1], estimands=["turnout"], aggregates=aggs)
        others = {
            "same": None,
            "other_estimator": dict(pi=other_pi, alphas=[0.5 if other_pi == "nonparametric" else 0.7], estimands=["turnout"], aggregates=aggs),
            "other_estimand": dict(pi=pi, alphas=[a1], estimands=["dem", "turnout"], aggregates=aggs),
            "other_aggregates": dict(pi=pi, alphas=[a1], estimands=["turnout"], aggregates=["postal_code", "county_classification", "unit"]),
        }
        for nm, Rp in others.items():
            out.append(dict(name="%s_history_%s" % (pi[:2], nm), units=P.standard_units(max(nrep, 7), 2, [P.U("c2_x0", "unexp")], cls=True),
                            R=R, Rp=Rp, cut_calibration=True, weight=10))
        out.append(dict(name="%s_fresh_vs_used" % pi[:2], units=P.standard_units(max(nrep, 7), 2, [P.U("c2_x0", "unexp")], cls=True),
                        R=R, Rp=others["other_estimator"], fresh=True, cut_calibration=True, weight=10))
    return out


def run(ctx, case):
    from elexmodel.client import ModelClient

    sc = P.build(ctx, dict(case, estimands=["dem", "turnout"]))
    pre, cur = sc.frames()
    client = ModelClient()
    config = None
    results = []
    reqs = [case["R"]] + ([case["Rp"]] if case["Rp"] else []) + [case["R"]]
    for i, req in enumerate(reqs):
        c = dict(case, **req)
        use_client = client
        if case.get("fresh") and i == len(reqs) - 1:
            use_client = ModelClient()
        r = P.run_client(ctx, c, sc=sc, frames=(pre.copy(), cur.copy()), client=use_client, config=config)
        config = r.config  # the same config object is handed to every call, as a long-running caller would
        results.append({k: v.copy() for k, v in r.res.items()})
    a, b = results[0], results[-1]
    obl = [("same set of tables", sorted(a) == sorted(b))]
    for t in sorted(set(a) & set(b)):
        obl += T.compare_tables(a[t], b[t], t)
    return obl, {"first": P.tables_out(a), "last": P.tables_out(b)}


def signature(case, entry):
    pi = case["R"]["pi"]
    nm = entry["name"]
    # group by table/column family rather than by row
    parts = nm.split(" ")
    fam = "%s %s" % (parts[0], parts[-2] if len(parts) > 2 else "")
    return "%s|%s|%s" % (pi, entry["kind"], fam)
