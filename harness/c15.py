"""C15 - gaussian intervals use a group's own calibration if big enough, else its parent."""
import itertools
import math

import numpy as np
import pandas as pd

from engine import sym
from engine.sym import AND, AEQ, Sym

ID = "C15"
ENCODED = ["elexmodel.models.GaussianElectionModel:GaussianElectionModel.get_aggregate_prediction_intervals",
           "elexmodel.distributions.GaussianModel:GaussianModel.fit", "elexmodel.distributions.GaussianModel:GaussianModel._fit",
           "elexmodel.distributions.GaussianModel:GaussianModel._get_n_units_per_group",
           "elexmodel.distributions.GaussianModel:GaussianModel._empty_gaussian_model",
           "elexmodel.utils.math_utils:compute_inflate", "elexmodel.utils.math_utils:weighted_median",
           "elexmodel.utils.pandas_utils:semi_join",
           "elexmodel.models.BaseElectionModel:BaseElectionModel._get_reporting_aggregate_votes",
           "elexmodel.models.BaseElectionModel:BaseElectionModel._get_nonreporting_aggregate_votes"]
STUBS = ["math_utils.weighted_median and math_utils.boot_sigma (as called from GaussianModel._fit) return a symbolic value named after the SET "
         "of calibration rows they were given (centre / positive scale of that set); so the output term shows whose calibration was used. "
         "The real weighted_median is checked separately on <=4 symbolic values (wmedian cases)",
         "compute_inflate is the real function (calibration weights are concrete)"]
ASSUMES = ["calibration scores (lower/upper bounds of the calibration rows) are pairwise distinct symbolic reals; unadjusted unit bounds of "
           "nonreporting units and counted votes are symbolic; previous-election weights are concrete",
           "float64 arithmetic modelled as exact real arithmetic"]
OUTSIDE = ["more than 2 aggregation levels in one call (the code states it never receives more)", "winsorised sigma numerics",
           "more than 3 groups per state / 2 states"]
BOUNDS = {"quick": "calibration-unit counts per group from {0, 1, 9, 10, 11} (N >= 10) and {0, 1, 2, 3} (N = 3, threshold 3); 1 state x 3 groups "
                   "and 2 states x 2 groups with labels repeated across states; levels [state], [state, county], [state, classification]; "
                   "groups present only among nonreporting units; alpha 0.7 and 0.9",
          "thorough": "all count patterns over {0,1,9,10,11}^3 for one state, more two-state patterns"}
OPTS = {"quick": dict(case_timeout_s=900, solver_timeout_ms=30000), "thorough": dict(case_timeout_s=3000, solver_timeout_ms=60000)}


def cases(tier):
    out = []
    one_state = [(11, 9, 0), (10, 10, 1), (9, 9, 9), (11, 0, 0), (1, 1, 1), (3, 0, 0), (2, 1, 0), (3, 3, 1), (0, 0, 12)]
    if tier == "thorough":
        one_state = sorted(set(one_state) | set(itertools.product((0, 1, 9, 10, 11), repeat=3)))
    for pat in one_state:
        for level in ("county_fips", "county_classification"):
            if tier == "quick" and level == "county_classification" and pat not in ((11, 9, 0), (2, 1, 0)):
                continue
            out.append(dict(name="one_state_%s_%s" % ("-".join(map(str, pat)), level[7:12]), kind="groups", level=level,
                            groups=[("AA", "g%d" % i, n) for i, n in enumerate(pat)], alpha=0.9, weight=sum(pat)))
    two = [
        # (state, group label, calibration units): labels repeat across states
        [("AA", "g0", 11), ("AA", "g1", 1), ("BB", "g0", 1), ("BB", "g1", 1)],     # BB too small as a state: falls back to all units
        [("AA", "g0", 10), ("AA", "g1", 2), ("BB", "g0", 2), ("BB", "g1", 10)],    # BB/g0 small, label g0 large in AA: must use state BB
        [("AA", "g0", 12), ("AA", "g1", 0), ("BB", "g0", 0), ("BB", "g1", 0)],     # BB has no calibration units at all
        [("AA", "g0", 2), ("AA", "g1", 1), ("BB", "g0", 1), ("BB", "g1", 0)],      # N = 4: threshold 4, everything falls back to all
        [("AA", "g0", 3), ("AA", "g1", 0), ("BB", "g0", 0), ("BB", "g1", 3)],      # N = 6: threshold 6
        [("AA", "g0", 10), ("AA", "g1", 10), ("BB", "g0", 2), ("BB", "g1", 2)],    # AA all large; BB small as a state: all units
        [("AA", "g0", 10), ("AA", "g1", 1), ("BB", "g0", 10), ("BB", "g1", 0)],    # each state has one large and one small group
    ]
    for i, g in enumerate(two):
        for level in ("county_fips", "county_classification"):
            out.append(dict(name="two_states_%d_%s" % (i, level[7:12]), kind="groups", level=level, groups=g, alpha=0.7, weight=30))
        out.append(dict(name="two_states_%d_state_level" % i, kind="groups", level=None, groups=g, alpha=0.9, weight=20))
    for n in (1, 2, 3, 4):
        out.append(dict(name="wmedian_n%d" % n, kind="wmedian", n=n, weight=5))
    return out


# ------------------------------------------------------------------------------------------------------------
class StatStubs:
    def __init__(self, ctx, registry):
        self.ctx, self.reg = ctx, registry

    def rows_of(self, values):
        ids = []
        for v in np.asarray(values, dtype=object).ravel():
            key = v.n.get_id() if isinstance(v, Sym) else float(v)
            ids.append(self.reg[key])
        kinds = {k for k, _ in ids}
        assert len(kinds) == 1, kinds
        return kinds.pop(), sorted(i for _, i in ids)

    def install(self):
        from elexmodel.utils import math_utils

        self.saved = (math_utils.weighted_median, math_utils.boot_sigma)
        S = self

        def wmedian(x, weights):
            kind, rows = S.rows_of(x)
            return S.ctx.real("mu_%s_%s" % (kind, "_".join(map(str, rows))), -10, 10)

        def bsigma(data, conf, num_iterations=10000, winsorize=False, random_state=None):
            kind, rows = S.rows_of(data)
            return S.ctx.real("sigma_%s_%s" % (kind, "_".join(map(str, rows))), 0, 10, lo_strict=True)

        math_utils.weighted_median, math_utils.boot_sigma = wmedian, bsigma
        return self

    def uninstall(self):
        from elexmodel.utils import math_utils

        math_utils.weighted_median, math_utils.boot_sigma = self.saved


def col(vals):
    a = np.empty(len(vals), dtype=object)
    a[:] = vals
    if not any(isinstance(v, Sym) for v in vals):
        return a.astype(float)
    return a


def run(ctx, case):
    if case["kind"] == "wmedian":
        return run_wmedian(ctx, case)
    from scipy import stats
    from elexmodel.models.GaussianElectionModel import GaussianElectionModel
    from elexmodel.models.ConformalElectionModel import PredictionIntervals

    est, alpha = "turnout", case["alpha"]
    level = case["level"]
    aggregate = ["postal_code"] + ([level] if level else [])
    # ---- calibration rows
    cal_rows, reg = [], {}
    rid = 0
    conc = getattr(ctx, "concrete", False)
    for (st, g, n) in case["groups"]:
        for j in range(n):
            lb = ctx.real("cal_lb_%d" % rid, -5, 5)
            ub = ctx.real("cal_ub_%d" % rid, -5, 5)
            cal_rows.append(dict(postal_code=st, grp=g, geographic_unit_fips="cal%d" % rid, w=100 + 13 * rid + (rid % 7) * 29, lb=lb, ub=ub, rid=rid))
            rid += 1
    N = len(cal_rows)
    # pairwise distinct scores: rows are identified by their score values
    allv = [r["lb"] for r in cal_rows] + [r["ub"] for r in cal_rows]
    for a_, b_ in itertools.combinations(range(len(allv)), 2):
        ctx.assume(sym.NOT(allv[a_] == allv[b_]) if isinstance(allv[a_], Sym) else allv[a_] != allv[b_])
    for r in cal_rows:
        for kind in ("lb", "ub"):
            v = r[kind]
            reg[v.n.get_id() if isinstance(v, Sym) else float(v)] = ("lower" if kind == "lb" else "upper", r["rid"])
    gcol = level or "county_fips"
    conf = pd.DataFrame({"postal_code": [r["postal_code"] for r in cal_rows], gcol: [r["grp"] for r in cal_rows],
                         "geographic_unit_fips": [r["geographic_unit_fips"] for r in cal_rows],
                         "last_election_results_%s" % est: [float(r["w"]) for r in cal_rows],
                         "lower_bounds": col([r["lb"] for r in cal_rows]), "upper_bounds": col([r["ub"] for r in cal_rows])})
    # ---- nonreporting units: one or two per group (every group has outstanding units), reporting + unexpected counted votes
    non_rows = []
    k = 0
    for gi, (st, g, n) in enumerate(case["groups"]):
        for j in range(1 + gi % 2):
            non_rows.append(dict(postal_code=st, grp=g, fips="non%d" % k, w=float(500 + 37 * k), res=ctx.int("non_res_%d" % k, 0, 10 ** 6),
                                 lbu=ctx.real("lb_unadj_%d" % k, -5, 5), ubu=ctx.real("ub_unadj_%d" % k, -5, 5)))
            k += 1
    non = pd.DataFrame({"postal_code": [r["postal_code"] for r in non_rows], gcol: [r["grp"] for r in non_rows],
                        "geographic_unit_fips": [r["fips"] for r in non_rows],
                        "last_election_results_%s" % est: [r["w"] for r in non_rows], "results_%s" % est: col([r["res"] for r in non_rows]),
                        "reporting": [0] * len(non_rows)})
    rep_rows = []
    for gi, (st, g, n) in enumerate(case["groups"]):
        rep_rows.append(dict(postal_code=st, grp=g, res=ctx.int("rep_res_%d" % gi, 0, 10 ** 6)))
    rep = pd.DataFrame({"postal_code": [r["postal_code"] for r in rep_rows], gcol: [r["grp"] for r in rep_rows],
                        "geographic_unit_fips": ["rep%d" % i for i in range(len(rep_rows))],
                        "results_%s" % est: col([r["res"] for r in rep_rows]), "reporting": [1] * len(rep_rows)})
    unx = rep.iloc[0:0].copy()
    if conf.shape[0] == 0:
        raise sym.Abort("no calibration rows")
    m = GaussianElectionModel({"save_conformalization": False})
    m.alpha_to_nonreporting_lower_bounds[alpha] = col([r["lbu"] for r in non_rows])
    m.alpha_to_nonreporting_upper_bounds[alpha] = col([r["ubu"] for r in non_rows])
    st_ = StatStubs(ctx, reg).install()
    try:
        pi = m.get_aggregate_prediction_intervals(rep, non, unx, aggregate, alpha, PredictionIntervals(None, None, conf), est)
    finally:
        st_.uninstall()
    lower, upper = list(np.asarray(pi.lower, dtype=object)), list(np.asarray(pi.upper, dtype=object))
    # ---- expected, from the rule in the statement
    T = min(10, N)
    z = float(stats.norm.ppf((3 + alpha) / 4))
    keys = sorted({(r["postal_code"],) + ((r["grp"],) if level else ()) for r in non_rows + rep_rows})
    obl = [("one interval per group", len(lower) == len(keys) and len(upper) == len(keys))]
    if len(lower) != len(keys):
        return obl, {}

    def pool_for(key):
        own = [r for r in cal_rows if (r["postal_code"],) + ((r["grp"],) if level else ()) == key]
        if len(own) >= T:
            return own
        if level:
            state = [r for r in cal_rows if r["postal_code"] == key[0]]
            if len(state) >= T:
                return state
        return cal_rows

    for i, key in enumerate(keys):
        nr = [r for r in non_rows if (r["postal_code"],) + ((r["grp"],) if level else ()) == key]
        rp = [r for r in rep_rows if (r["postal_code"],) + ((r["grp"],) if level else ()) == key]
        counted = sum((r["res"] for r in rp), 0)
        lo, hi = lower[i], upper[i]
        if sym.is_special(lo) or sym.is_special(hi):
            obl.append(("group %s: interval is finite" % "/".join(key), False))
            continue
        if not nr:
            obl.append(("group %s without outstanding units: interval = counted votes" % "/".join(key), AND(AEQ(lo, counted), AEQ(hi, counted))))
            continue
        pool = pool_for(key)
        ids = "_".join(str(r["rid"]) for r in sorted(pool, key=lambda r: r["rid"]))
        mu_l, mu_u = ctx.real("mu_lower_%s" % ids, -10, 10), ctx.real("mu_upper_%s" % ids, -10, 10)
        sg_l, sg_u = ctx.real("sigma_lower_%s" % ids, 0, 10, lo_strict=True), ctx.real("sigma_upper_%s" % ids, 0, 10, lo_strict=True)
        # constants with the same float operations as the code (np.sum / np.power on the same values in the same order)
        ws = pd.Series([float(r["w"]) for r in pool])
        infl = np.sum(np.power(ws, 2)) / np.power(np.sum(ws), 2)
        wn = pd.Series([float(r["w"]) for r in nr])
        W, W2 = np.sum(wn), np.sum(np.power(wn, 2))
        scale = np.sqrt(W2 + infl * np.power(W, 2))
        lb = sum((r["w"] * r["lbu"] for r in nr), 0) - (W * mu_l + z * (sg_l * scale))
        ub = sum((r["w"] * r["ubu"] for r in nr), 0) + (W * mu_u + z * (sg_u * scale))
        nres = sum((r["res"] for r in nr), 0)
        want_lo = rnd(sym.smax(W + lb, nres)) + counted
        want_hi = rnd(sym.smax(W + ub, nres)) + counted
        which = "own" if pool is not cal_rows and len(pool) < N and all((r["postal_code"],) + ((r["grp"],) if level else ()) == key for r in pool) else (
            "all" if pool is cal_rows else "state")
        obl.append(("group %s: lower bound uses the %s calibration (centre, scale, inflation)" % ("/".join(key), which), near(lo, want_lo)))
        obl.append(("group %s: upper bound uses the %s calibration (centre, scale, inflation)" % ("/".join(key), which), near(hi, want_hi)))
    return obl, {"lower": col(lower), "upper": col(upper)}


def near(a, b):
    """equal up to one vote: the float constants (inflation, scale) may differ in the last bit from the code's, which can flip a
    rounding tie; a wrong calibration pool differs by arbitrary amounts (centre and scale are free symbols)"""
    return AND(sym.LE(a, b + 1), sym.GE(a, b - 1)) if isinstance(a, Sym) or isinstance(b, Sym) else abs(float(a) - float(b)) <= 1


def rnd(v):
    return v.rint() if isinstance(v, Sym) else float(np.round(v))


def run_wmedian(ctx, case):
    """the real weighted_median against its definition on n symbolic values with concrete normalised weights"""
    from elexmodel.utils.math_utils import weighted_median

    n = case["n"]
    wraw = [3.0, 1.0, 2.0, 2.0][:n]
    tot = sum(wraw)
    w = np.array([x / tot for x in wraw])
    xs = [ctx.real("x_%d" % i, -10, 10) for i in range(n)]
    x = col(xs)
    got = weighted_median(x, w)
    # definition: m with cumulative weight below <= 1/2 <= cumulative weight up to; when a prefix has exactly 1/2: average of the two neighbours
    below = sum((sym.ite(xi < got, wi, 0) if isinstance(xi < got, sym.SymBool) else (wi if xi < got else 0) for xi, wi in zip(xs, w)), 0)
    above = sum((sym.ite(xi > got, wi, 0) if isinstance(xi > got, sym.SymBool) else (wi if xi > got else 0) for xi, wi in zip(xs, w)), 0)
    obl = [("weighted median: at most half of the weight strictly below and at most half strictly above",
            AND(sym.LE(below, 0.5 + 1e-12), sym.LE(above, 0.5 + 1e-12)))]
    return obl, {"median": got}


def signature(case, entry):
    nm = entry["name"]
    import re

    nm = re.sub(r"group [A-Z]+(/g\d)?", "group G", nm)
    return "%s|%s|%s|%s" % (case["kind"], case.get("level"), entry["kind"], nm)
