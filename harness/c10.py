"""C10 - outstanding and excluded units cannot influence anyone else's estimate (self-composition)."""
import numpy as np
import pandas as pd

from engine import sym
from engine.sym import AEQ, Sym
from . import pipeline as P
from . import tworun as T
from . import c01

ID = "C10"
ENCODED = P.ENCODED_PIPELINE + ["elexmodel.client:HistoricalModelClient._format_historical_current_data"]
STUBS = P.STUBS_PIPELINE + [P.CUT_STUB_NOTE + " (quick tier; the thorough tier also runs the real calibration code)","boot_sigma modelled as a deterministic function of its data (its seeding is C12's subject)"]
ASSUMES = P.ASSUMES_PIPELINE + [
    "bit-for-bit identity is established as equality of the output terms: every regression / bootstrap leaf is an "
    "uninterpreted function of exactly the arguments the code passes, so outputs can only be equal for all values if the "
    "perturbed count is not among those arguments; identical float operation sequences on identical operands are bit-identical"]
OUTSIDE = P.OUTSIDE_PIPELINE + ["gaussian aggregate bounds of the groups that contain the perturbed unit (they legitimately move "
                                "with the floor term)", "bootstrap estimator: covered at the level of the compute_bootstrap_errors body (bs cases), not through the client"]
BOUNDS = {"quick": "NP (4 reporting) and GA (7 reporting, calibration units spread over / concentrated in one county), 2 nonreporting + "
                   "1 perturbed unit of each kind {nonreporting, blocklisted, zero-baseline, unexpected}; 2 counties, classification "
                   "level; historical clause: 3 units, one hidden; bootstrap: compute_bootstrap_errors body with 2 outstanding units, B=2",
          "thorough": "adds 2 estimands, 2 alphas, district office"}
OPTS = {"quick": dict(case_timeout_s=900, solver_timeout_ms=30000), "thorough": dict(case_timeout_s=3000, solver_timeout_ms=60000)}

PERTURBED = {
    "non": lambda: P.U("k0", "non", county="c2"),
    "block": lambda: P.U("k0", "block", county="c2"),
    "zero": lambda: P.U("k0", "zero", county="c2"),
    "unexp": lambda: P.U("c2_k0", "unexp"),
}


def calibration_positions(n, seed=4191, frac=0.7):
    """indices (in feed order) of the reporting units that end up in the gaussian conformalization set"""
    import math

    order = pd.DataFrame({"i": range(n)}).sample(frac=1, random_state=seed)["i"].tolist()
    return order[max(math.floor(n * frac), 1):]


def cases(tier):
    out = []
    for pi, nrep, alphas in (("nonparametric", 4, [0.5]), ("gaussian", 7, [0.7])):
        layouts = ["spread"] if pi == "nonparametric" else ["spread", "cal_in_c1", "cal_in_c2"]
        for kind in PERTURBED:
            for layout in layouts:
                if layout != "spread" and kind in ("block", "zero"):
                    continue
                us = P.standard_units(nrep, 2, [PERTURBED[kind]()], cls=True)
                if layout != "spread":
                    cal = set(calibration_positions(nrep))
                    for i in range(nrep):
                        inside = i in cal
                        us[i]["county"] = ("c1" if layout == "cal_in_c1" else "c2") if inside else (
                            "c2" if layout == "cal_in_c1" else "c1")
                out.append(dict(name="%s_%s_%s" % (pi[:2], kind, layout), kind="pipeline", pi=pi, alphas=alphas, estimands=["turnout"],
                                units=us, perturbed=us[-1]["fips"],
                                aggregates=["postal_code", "county_fips", "county_classification", "unit"],
                                boot_sigma_deterministic=True, cut_calibration=not (tier == "thorough" and layout == "spread" and kind == "non"),
                                weight=nrep))
    if tier == "thorough":
        for pi, nrep, alphas in (("nonparametric", 6, [0.5, 0.7]), ("gaussian", 7, [0.7, 0.9])):
            us = P.standard_units(nrep, 2, [PERTURBED["non"]()], cls=True)
            out.append(dict(name="%s_non_two_estimands" % pi[:2], kind="pipeline", pi=pi, alphas=alphas, estimands=["dem", "turnout"],
                            units=us, perturbed="k0", aggregates=["postal_code", "county_fips", "unit"],
                            boot_sigma_deterministic=True, cut_calibration=True, weight=40))
    for thr in (100, 90):
        out.append(dict(name="historical_thr%d" % thr, kind="historical", threshold=thr, weight=5))
    for B in (2,) if tier == "quick" else (2, 3):
        out.append(dict(name="bootstrap_errors_B%d" % B, kind="bs", B=B, weight=20))
    return out


def run_bs(ctx, case):
    """2-safety of the real compute_bootstrap_errors body (numeric leaves = uninterpreted functions of their arguments):
    changing the partial margin / turnout factor of one outstanding unit (expected vote unchanged) leaves the draws and the
    point predictions of the other outstanding unit untouched"""
    from elexmodel.models.BootstrapElectionModel import BootstrapElectionModel as BEM
    from . import c06

    B = case["B"]
    pev = [ctx.real("pev_%d" % i, 0, 120) for i in range(2)]
    w = [ctx.real("w_%d" % i, 1, 10 ** 6) for i in range(2)]
    nm = [ctx.real("nm_%d" % i, -1, 1) for i in range(2)]
    tf = [ctx.real("tf_%d" % i, 0, 100) for i in range(2)]
    nm_alt, tf_alt = ctx.real("nm_alt_0", -1, 1), ctx.real("tf_alt_0", 0, 100)
    outs = []
    L = c06.LeafStubs(ctx, uf=True).install()
    try:
        for variant in (0, 1):
            m = BEM({"features": ["baseline_normalized_margin"], "B": B, "lambda_": 1.0})

            def frame(n, tag, rep, cols):
                d = pd.DataFrame({"postal_code": ["AA"] * n, "geographic_unit_fips": ["%s%d" % (tag, i) for i in range(n)],
                                  "county_classification": ["k1"] * n, "baseline_normalized_margin": [0.1 * (i + 1) for i in range(n)],
                                  "reporting": [rep] * n, "unit_category": ["expected"] * n})
                for k_, v in cols.items():
                    d[k_] = c06._col(v)
                return d

            rep = frame(2, "r", 1, {"baseline_weights": [300.0, 700.0], "results_normalized_margin": [0.1, -0.2],
                                    "turnout_factor": [0.9, 1.1], "percent_expected_vote": [100.0, 100.0]})
            non = frame(2, "n", 0, {"baseline_weights": w, "results_normalized_margin": [nm_alt if variant else nm[0], nm[1]],
                                    "turnout_factor": [tf_alt if variant else tf[0], tf[1]], "percent_expected_vote": pev})
            m.compute_bootstrap_errors(rep, non, rep.iloc[0:0].copy())
            outs.append(m)
    finally:
        L.uninstall()
    a, b = outs
    obl = []
    for nm_, attr in (("errors_B_1", "errors_B_1"), ("errors_B_2", "errors_B_2"), ("errors_B_3", "errors_B_3"), ("errors_B_4", "errors_B_4")):
        for j in range(B):
            obl.append(("bootstrap %s of the other outstanding unit unchanged [draw %d]" % (nm_, j),
                        T.cell_equal(getattr(a, attr)[1, j], getattr(b, attr)[1, j])))
    obl.append(("point margin of the other outstanding unit unchanged", T.cell_equal(a.weighted_yz_test_pred[1, 0], b.weighted_yz_test_pred[1, 0])))
    obl.append(("point turnout of the other outstanding unit unchanged", T.cell_equal(a.weighted_z_test_pred[1, 0], b.weighted_z_test_pred[1, 0])))
    return obl, {"e3": a.errors_B_3}


def run(ctx, case):
    if case["kind"] == "bs":
        return run_bs(ctx, case)
    if case["kind"] == "historical":
        return run_historical(ctx, case)
    sc = P.build(ctx, case)
    k = next(u for u in sc.units if u.fips == case["perturbed"])
    pre, cur = sc.frames()
    # second feed: only the perturbed unit's counted votes differ (same expected vote, still below the threshold)
    cur2 = cur.copy()
    alt = {}
    for est_col in [c for c in cur.columns if c.startswith("results_")]:
        alt[est_col] = sc.num("alt_%s_%s" % (est_col[8:], k.fips), 0, 10 ** 7)
    if "results_turnout" in alt:
        for c in alt:
            if c != "results_turnout":
                ctx.assume(alt[c] <= alt["results_turnout"])
    idx = cur2.index[cur2["geographic_unit_fips"] == k.fips][0]
    for c, v in alt.items():
        if isinstance(v, Sym):
            cur2[c] = cur2[c].astype(object)
        cur2.at[idx, c] = v
    r1 = P.run_client(ctx, case, sc=sc, frames=(pre.copy(), cur))
    r2 = P.run_client(ctx, case, sc=sc, frames=(pre.copy(), cur2))
    ut = case.get("unit_type", "county")
    obl = []
    a, b = r1.res, r2.res

    def is_k_unit(key):
        return key.get("geographic_unit_fips") == k.fips

    obl += T.compare_tables(a["unit_data"], b["unit_data"], "unit table", skip_row=is_k_unit)
    cats = {u.fips: c01.classify(sc, u, case) for u in sc.units}
    for table, level in c01.LEVELS.items():
        if table not in a:
            continue
        lcols = c01.level_cols(case, table)
        kkey = tuple(P.group_key(k, lv, ut) for lv in lcols)

        def contains_k(key, kkey=kkey, lcols=lcols):
            return tuple(key.get(c) for c in lcols) == kkey

        groups = c01.expected_groups(sc, case, lcols, cats)
        counted_here = kkey in groups and any(u.fips == k.fips for u in groups[kkey]["counted"])
        if not counted_here:
            # k is not attributable at this level (e.g. non-modelled units at classification level): nothing may move
            obl += T.compare_tables(a[table], b[table], table)
            continue
        obl += T.compare_tables(a[table], b[table], table, skip_row=contains_k)
        # the group containing k: only the counted-vote / floor terms move
        ta, tb = a[table], b[table]
        ia = [i for i in range(len(ta)) if tuple(ta[c].iloc[i] for c in lcols) == kkey]
        ib = [i for i in range(len(tb)) if tuple(tb[c].iloc[i] for c in lcols) == kkey]
        obl.append(("%s: the perturbed unit's group is present in both runs alike" % table, len(ia) == len(ib)))
        if len(ia) == 1 and len(ib) == 1:
            ua = a["unit_data"].set_index("geographic_unit_fips")
            ub = b["unit_data"].set_index("geographic_unit_fips")
            for est in case["estimands"]:
                cols = ["results_%s" % est, "pred_%s" % est]
                if case["pi"] == "nonparametric":
                    cols += ["%s_%s_%s" % (bd, al, est) for al in case["alphas"] for bd in ("lower", "upper")]
                for c in cols:
                    da = ta[c].iloc[ia[0]] - ua.loc[k.fips, c]
                    db = tb[c].iloc[ib[0]] - ub.loc[k.fips, c]
                    obl.append(("%s group of the perturbed unit: %s minus the unit's own %s unchanged" % (table, c, c),
                                T.cell_equal(da, db)))
            obl.append(("%s group of the perturbed unit: reporting count unchanged" % table,
                        T.cell_equal(ta["reporting"].iloc[ia[0]], tb["reporting"].iloc[ib[0]])))
    return obl, {"run1": P.tables_out(a), "run2": P.tables_out(b)}


def run_historical(ctx, case):
    """HistoricalModelClient._format_historical_current_data: historical results of units that are not yet reporting are hidden"""
    import os
    import tempfile
    from elexmodel.client import HistoricalModelClient

    thr = case["threshold"]
    n = 3
    fips = ["h%d" % i for i in range(n)]
    # live feed of the running election: only the expected vote matters
    pev = [100, ctx.real("pev_h1", 0, 120), ctx.real("pev_h2", 0, 120)]
    ctx.assume(pev[2] < thr)  # unit h2 is not yet reporting: its historical result must be hidden
    live = pd.DataFrame({"postal_code": ["AA"] * n, "geographic_unit_fips": fips, "percent_expected_vote": pev,
                         "results_turnout": [1, 2, 3]})
    hist = [ctx.int("hist_%s" % f, 0, 10 ** 7) for f in fips]
    hist_alt = ctx.int("hist_alt_h2", 0, 10 ** 7)
    outs = []
    for variant in (hist, hist[:2] + [hist_alt]):
        d = tempfile.mkdtemp(prefix="verif_hist_")
        cwd = os.getcwd()
        try:
            os.makedirs(os.path.join(d, "data", "HIST", "G"))
            # the preprocessed file of the historical election is read from the local data directory
            pd.DataFrame({"postal_code": ["AA"] * n, "geographic_unit_fips": fips, "county_fips": fips,
                          "baseline_turnout": [100, 200, 300], "results_turnout": [0] * n}).to_csv(
                os.path.join(d, "data", "HIST", "G", "data_county.csv"), index=False)
            os.chdir(d)
            c = HistoricalModelClient()
            c.aggregates = ["postal_code", "unit"]
            import elexmodel.client as cl

            orig = cl.PreprocessedDataHandler

            class PH(orig):
                def get_data(self_):
                    data = pd.read_csv(self_.local_file_path, dtype={"geographic_unit_fips": str, "county_fips": str})
                    data["results_turnout"] = data["results_turnout"].astype(object)
                    for i, v in enumerate(variant):
                        data.at[i, "results_turnout"] = v
                    return self_.load_data(data)

            cl.PreprocessedDataHandler = PH
            try:
                cur, pre = c._format_historical_current_data(live, "HIST", "G", "county", ["turnout"], {"turnout": "turnout"}, thr)
            finally:
                cl.PreprocessedDataHandler = orig
        finally:
            os.chdir(cwd)
            import shutil

            shutil.rmtree(d, ignore_errors=True)
        outs.append(cur)
    a, b = outs
    obl = T.compare_tables(a, b, "historical feed", cols=True)
    ra = a.set_index("geographic_unit_fips")
    obl.append(("hidden unit's historical result is zeroed", T.cell_equal(ra.loc["h2", "results_turnout"], 0)))
    obl.append(("reporting unit keeps its historical result", T.cell_equal(ra.loc["h0", "results_turnout"], hist[0])))
    return obl, {"feed": a[["geographic_unit_fips", "results_turnout"]]}


def signature(case, entry):
    return "%s|%s|%s|%s" % (case.get("pi", case["kind"]), case["name"], entry["kind"], entry["name"][:80])
