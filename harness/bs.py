"""Shared bootstrap-estimator harness.

Assume/guarantee: the body of BootstrapElectionModel.compute_bootstrap_errors is executed for real with only its numeric
leaves stubbed (c06 'iboot' cases) and proved to establish the draw-matrix invariant I_boot; the downstream functions
(unit / aggregate intervals, aggregate predictions, race calls, national summary) are then run - through the real
ModelClient.get_estimates - from ARBITRARY draw matrices satisfying I_boot (compute_bootstrap_errors replaced by a stub
that installs symbolic matrices).

I_boot:  all cells finite;  errors_B_3 >= 0, errors_B_4 >= 0;  |errors_B_1| <= errors_B_3, |errors_B_2| <= errors_B_4;
         weighted_z_test_pred >= 0, |weighted_yz_test_pred| <= weighted_z_test_pred.
"""
import numpy as np
import pandas as pd

from engine import sym, stubs
from engine.sym import AND, Sym
from . import pipeline as P
import scenario as S

ENCODED_BS = [
    "elexmodel.models.BootstrapElectionModel:BootstrapElectionModel.get_unit_predictions",
    "elexmodel.models.BootstrapElectionModel:BootstrapElectionModel.get_unit_prediction_intervals",
    "elexmodel.models.BootstrapElectionModel:BootstrapElectionModel.get_aggregate_predictions",
    "elexmodel.models.BootstrapElectionModel:BootstrapElectionModel.get_aggregate_prediction_intervals",
    "elexmodel.models.BootstrapElectionModel:BootstrapElectionModel._get_quantiles",
    "elexmodel.models.BootstrapElectionModel:BootstrapElectionModel._format_called_contests",
    "elexmodel.models.BootstrapElectionModel:BootstrapElectionModel._adjust_called_contests",
    "elexmodel.models.BootstrapElectionModel:BootstrapElectionModel._is_top_level_aggregate",
    "elexmodel.models.BootstrapElectionModel:BootstrapElectionModel.get_national_summary_estimates",
    "elexmodel.models.BaseElectionModel:BaseElectionModel.get_aggregate_predictions",
    "elexmodel.client:ModelClient.get_estimates",
    "elexmodel.client:ModelClient.get_national_summary_votes_estimates",
    "elexmodel.handlers.data.ModelResults:ModelResultsHandler.add_national_summary_estimates",
]
STUBS_BS = [
    "BootstrapElectionModel.compute_bootstrap_errors: replaced by a stub that installs arbitrary symbolic draw matrices satisfying "
    "I_boot (the invariant is proved from the real function body in C06's iboot cases)",
    "S3: recording fake"]
ASSUMES_BS = [
    "counted votes of reporting and nonreporting units and all baselines are concrete (profile); votes of unexpected units and the "
    "margin draws / point margins are symbolic reals constrained only by I_boot; the turnout draws and point turnouts are concrete "
    "positive numbers unless the case says concrete_turnout=False (keeps the quotients' denominators concrete, so queries are linear)",
    "float64 arithmetic modelled as exact real arithmetic"]


def margin_units(nrep, nnon, nunexp=0, states=("AA",), counties=2, cls=True, district=False, unexp_state=None,
                 symbolic_unexpected=False):
    """unit specs with concrete two-party baselines AND concrete counted votes (reporting / nonreporting);
    unexpected units keep symbolic votes"""
    us = []
    prof = S.profile("generic", 16)
    k = 0
    for s in states:
        for i in range(nrep):
            t = prof[k % 16] + 100 * (k // 16)
            t2 = t + 10 * (k % 5) - 20
            # nearly balanced two-party margins (alternating sign) so that the outstanding units decide the sign of a contest
            us.append(P.U("%sr%d" % (s, i), "rep", state=s, county="%sc%d" % (s, 1 + i % counties),
                          base=dict(turnout=t, dem=t // 2 - 2 + (k % 3), gop=t // 2 - 3 + ((k + 1) % 3)),
                          res=dict(turnout=t2, dem=t2 // 2 - 4 + (k % 4) * 2, gop=t2 // 2 - 5 + ((k + 2) % 4) * 2)))
            k += 1
        for i in range(nnon):
            t = prof[k % 16] + 100 * (k // 16)
            us.append(P.U("%sn%d" % (s, i), "non", state=s, county="%sc%d" % (s, 1 + i % counties),
                          base=dict(turnout=t, dem=t // 2 + 1, gop=t // 3 + 2), pev=40 + 10 * i,
                          # every other outstanding unit has already counted more two-party votes than the model predicts for it
                          res=(dict(turnout=t // 3, dem=t // 7 + i, gop=t // 8 + 2) if i % 2 else
                               dict(turnout=t, dem=t // 2 - 7, gop=t // 3 + 5))))
            k += 1
    st = unexp_state or states[0]
    for i in range(nunexp):
        u = P.U("%sc%d_x%d" % (st, 1 + i % counties, i), "unexp", state=st)
        if not symbolic_unexpected:
            u["res"] = dict(turnout=520 + 10 * i, dem=400 + 3 * i, gop=50 + 5 * i)  # a clearly non-zero margin
            u["pev"] = 100
        us.append(u)
    for j, u in enumerate(us):
        if cls and u["kind"] != "unexp":
            u["cls"] = "k%d" % (1 + j % 2)
        if district and u["kind"] != "unexp":
            u["district"] = "d%d" % (1 + j % 2)
    return us


class BootStub:
    """replaces BootstrapElectionModel.compute_bootstrap_errors"""

    def __init__(self, ctx, B, tag="", concrete_turnout=True, symbolic_rows=None, symbolic_mats=None):
        self.ctx, self.B, self.tag = ctx, B, tag
        self.concrete_turnout = concrete_turnout
        self.symbolic_rows = symbolic_rows  # None = every outstanding unit has symbolic margin draws
        self.symbolic_mats = symbolic_mats  # None = all of e1, e2, yz; else the names of the matrices that stay symbolic
        self.state = None
        self.models = []
        self.inputs = []  # (reporting, nonreporting) frames handed to the bootstrap core, per call

    def install(self):
        from elexmodel.models.BootstrapElectionModel import BootstrapElectionModel as BEM

        self.orig = BEM.compute_bootstrap_errors
        stub = self

        def compute(model, reporting_units, nonreporting_units, unexpected_units):
            n_test = nonreporting_units.shape[0]
            stub.inputs.append((reporting_units.copy(), nonreporting_units.copy()))
            st = stub.state
            if st is None or st["n_test"] != n_test:
                st = stub.state = stub.fresh(n_test)
            model.errors_B_1, model.errors_B_2 = st["e1"].copy(), st["e2"].copy()
            model.errors_B_3, model.errors_B_4 = st["e3"].copy(), st["e4"].copy()
            model.weighted_yz_test_pred, model.weighted_z_test_pred = st["yz"].copy(), st["z"].copy()
            model.ran_bootstrap = True
            all_units = pd.concat([reporting_units, nonreporting_units, unexpected_units], axis=0)
            names = sorted(all_units["postal_code"].unique())
            model.aggregate_names = {c: i for i, c in enumerate(names)}
            model.n_contests = len(names)
            stub.models.append(model)

        BEM.compute_bootstrap_errors = compute
        return self

    def uninstall(self):
        from elexmodel.models.BootstrapElectionModel import BootstrapElectionModel as BEM

        BEM.compute_bootstrap_errors = self.orig

    def fresh(self, n_test):
        c, B, t = self.ctx, self.B, self.tag

        rows = self.symbolic_rows

        def mat(name, shape):
            a = np.empty(shape, dtype=object if not getattr(c, "concrete", False) else float)
            for idx in np.ndindex(*shape):
                if (rows is not None and idx[0] not in rows) or (self.symbolic_mats is not None and name not in self.symbolic_mats):
                    # concrete draws for this unit (alternating sign, inside I_boot for the concrete turnout draws)
                    val = float((-1) ** (idx[0] + idx[1]) * (300 + 70 * idx[1] + 11 * idx[0] + (37 if name == "e2" else 0)))
                    # (a Sym constant in symbolic mode: numpy's object-dtype round() needs every cell to have .rint)
                    a[idx] = val if getattr(c, "concrete", False) else Sym(sym.RV(val))
                else:
                    a[idx] = c.real("%s%s_%s" % (t, name, "_".join(map(str, idx))), -10 ** 6, 10 ** 6)
            return a

        e1, e2 = mat("e1", (n_test, B)), mat("e2", (n_test, B))
        yz = mat("yz", (n_test, 1))
        if self.concrete_turnout:
            # turnout draws and the point turnout are concrete (keeps every quotient's denominator concrete, hence the
            # whole query linear); margin draws stay symbolic
            e3 = np.array([[2100.0 + 70 * i + 30 * b for b in range(B)] for i in range(n_test)], dtype=float).reshape(n_test, B)
            e4 = np.array([[1900.0 + 50 * i + 110 * b for b in range(B)] for i in range(n_test)], dtype=float).reshape(n_test, B)
            z = np.array([[2000.0 + 10 * i] for i in range(n_test)], dtype=float).reshape(n_test, 1)
        else:
            e3, e4, z = mat("e3", (n_test, B)), mat("e4", (n_test, B)), mat("z", (n_test, 1))
        for idx in np.ndindex(n_test, B):
            c.assume(AND(e3[idx] >= 0, e4[idx] >= 0, e1[idx] <= e3[idx], -e1[idx] <= e3[idx], e2[idx] <= e4[idx], -e2[idx] <= e4[idx]))
        for i in range(n_test):
            c.assume(AND(z[i, 0] >= 0, yz[i, 0] <= z[i, 0], -yz[i, 0] <= z[i, 0]))
        return dict(n_test=n_test, e1=e1, e2=e2, e3=e3, e4=e4, yz=yz, z=z)


def build_bs(ctx, case):
    """scenario with concrete counted votes for reporting / nonreporting units (see module docstring)"""
    c = dict(case, estimands=["margin"])
    sc = S.Scenario(ctx, estimands=["margin"], integer=False)
    for spec in c["units"]:
        kind = spec["kind"]
        u = S.Unit(spec["fips"], state=spec.get("state", "AA"), county=spec.get("county"), district=spec.get("district"),
                   classification=spec.get("cls"), kind=kind, pev=spec.get("pev"), in_baseline=kind != "unexp",
                   base=spec.get("base"))
        u.res = spec.get("res")
        if spec.get("zero_votes"):
            # counts are symbolic but constrained to 0 (so that every quantity derived from them stays a Sym cell: numpy's object
            # loops would otherwise divide plain floats the Python way and raise ZeroDivisionError on 0/0)
            u.res = None
            u.kind = "zero_votes"
            sc.add(u)
            for k_, v_ in u.vals.items():
                if k_.startswith("results_"):
                    ctx.assume(v_ == 0)
            continue
        sc.add_concrete(u) if u.res is not None else sc.add(u)
    return sc


def run_bs_client(ctx, case, sc=None, tag="", client=None, boot=None, config=None, frames=None):
    sc = sc or build_bs(ctx, case)
    own = boot is None
    if own:
        boot = BootStub(ctx, case.get("B", 2), tag=tag, concrete_turnout=case.get("concrete_turnout", True),
                        symbolic_rows=case.get("symbolic_rows")).install()
    c = dict(case, pi="bootstrap", estimands=["margin"], features=["baseline_normalized_margin"])
    mp = dict(c.get("model_parameters", {}))
    mp.setdefault("B", case.get("B", 2))
    mp.setdefault("lambda_", 1.0)
    c["model_parameters"] = mp
    try:
        r = P.run_client(ctx, c, sc=sc, client=client, config=config, frames=frames)
    finally:
        if own:
            boot.uninstall()
    r.boot = boot
    return r
