"""C07 - race calls and call-stops are always honoured; contradictory calls are rejected."""
import numpy as np

from engine import sym
from engine.sym import AND, GE, LE, AEQ, Sym
from . import pipeline as P
from . import bs as BS
from . import tworun as T

ID = "C07"
ENCODED = BS.ENCODED_BS
STUBS = BS.STUBS_BS
ASSUMES = BS.ASSUMES_BS
OUTSIDE = ["more than 3 contests; district-level contests (office H/Y/Z use (state, district) as the contest)",
           "B above the bound"]
BOUNDS = {"quick": "2 contests (states) x every combination of {not called, called left, called right, called both} x {stop-listed or not}, "
                   "plus an unknown contest name; B = 2 draws, 2 levels; arbitrary margin draws (every sign of prediction and bounds); "
                   "a fully reported contest (no outstanding unit); a contest without any counted vote (0/0 margin)",
          "thorough": "3 contests, all 512 combinations; B = 3"}
OPTS = {"quick": dict(case_timeout_s=900, solver_timeout_ms=30000, max_paths=100000),
        "thorough": dict(case_timeout_s=3300, solver_timeout_ms=60000, max_paths=1000000)}
CALL = ["none", "lhs", "rhs", "both"]


def cases(tier):
    out = []
    two = BS.margin_units(6, 1, 0, states=("AA", "BB"))
    # every combination of the call / stop state of two contests is its own case (parallel parts); values stay symbolic
    for ca in range(4):
        for sa in range(2):
            for cb in range(4):
                for sb in range(2):
                    if (cb, sb) > (ca, sa) and tier == "quick":
                        continue  # the two contests are symmetric up to their concrete counts: quick tier keeps one order
                    out.append(dict(name="two_%s%d_%s%d" % (CALL[ca], sa, CALL[cb], sb), states=["AA", "BB"],
                                    fixed={"AA": (ca, sa), "BB": (cb, sb)}, B=2, alphas=[0.9] if tier == "quick" else [0.5, 0.9],
                                    units=two, aggregates=["postal_code", "county_fips", "unit"], weight=10))
    # a contest that is fully reported (no outstanding unit) next to one that is not
    import copy

    us = copy.deepcopy([u for u in two if not (u["kind"] == "non" and u["state"] == "BB")])
    for u in us:
        if u["state"] == "BB" and u["kind"] == "rep":
            u["res"]["gop"] -= 40  # a clearly non-zero counted margin (about +1.2%), so the +/-0.001 band excludes zero
    for cb in range(3):
        for sb in range(2):
            out.append(dict(name="fully_reported_%s%d" % (CALL[cb], sb), states=["AA", "BB"], fixed={"AA": (0, 0), "BB": (cb, sb)},
                            B=2, alphas=[0.9], units=us, aggregates=["postal_code", "unit"], weight=5))
    # a contest without a single counted two-party vote (uncontested, or nothing in yet): its units are passed through
    # (zero turnout factor), its predicted turnout is 0 and its raw margin 0/0
    zs = copy.deepcopy(BS.margin_units(10, 1, 0, states=("AA",))) + [
        P.U("BBz%d" % i, "strange", state="BB", county="BBc1", cls="k1", pev=100, base=dict(turnout=900 + i, dem=400, gop=300),
            zero_votes=True) for i in range(2)]
    for cb in range(3):
        for sb in range(2):
            out.append(dict(name="zero_votes_contest_%s%d" % (CALL[cb], sb), states=["AA", "BB"], fixed={"AA": (0, 0), "BB": (cb, sb)},
                            B=2, alphas=[0.9], units=zs, aggregates=["postal_code", "unit"], weight=5))
    for which in range(3):
        out.append(dict(name="unknown_contest_%d" % which, states=["AA", "BB"], fixed={"AA": (0, 0), "BB": (1, 0)}, unknown=which,
                        B=2, alphas=[0.9], units=two, aggregates=["postal_code", "unit"], weight=5))
    if tier == "thorough":
        three = BS.margin_units(4, 1, 0, states=("AA", "BB", "CC"))
        for ca in range(3):
            for sa in range(2):
                out.append(dict(name="three_%s%d" % (CALL[ca], sa), states=["AA", "BB", "CC"], fixed={"AA": (ca, sa), "BB": (1, 0), "CC": (2, 1)},
                                B=2, alphas=[0.9], units=three, aggregates=["postal_code", "unit"], weight=60))
    return out


def run(ctx, case):
    from elexmodel.models.BootstrapElectionModel import BootstrapElectionModelException

    states = case["states"]
    call, stop = {}, {}
    for i, s in enumerate(states):
        if case.get("fixed") and s in case["fixed"]:
            call[s], stop[s] = case["fixed"][s]
        else:
            call[s] = case["first"] if (i == 0 and "first" in case) else ctx.choose("call_%s" % s, 4)
            stop[s] = case["first_stop"] if (i == 0 and "first_stop" in case) else ctx.choose("stop_%s" % s, 2)
    lhs = [s for s in states if call[s] in (1, 3)]
    rhs = [s for s in states if call[s] in (2, 3)]
    stp = [s for s in states if stop[s]]
    if case.get("unknown") is not None:
        [lhs, rhs, stp][case["unknown"]].append("ZZ")
    sc = BS.build_bs(ctx, case)
    boot = BS.BootStub(ctx, case["B"]).install()
    try:
        untouched = [s_ for s_ in states if call[s_] == 0 and not stop[s_]]
        contradictory = any(call[s_] == 3 for s_ in states) or case.get("unknown") is not None
        # reference run without calls: only needed to compare untouched contests / finer tables
        base = BS.run_bs_client(ctx, case, sc=sc, boot=boot) if (untouched or case.get("unknown") == 0) and not contradictory else None
        exc, r = None, None
        try:
            r = BS.run_bs_client(ctx, dict(case, lhs_called_contests=lhs, rhs_called_contests=rhs, stop_model_call=stp), sc=sc, boot=boot)
        except BootstrapElectionModelException as e:
            exc = e
    finally:
        boot.uninstall()
    obl = []
    if contradictory:
        obl.append(("contradictory / unknown call is rejected with an error, no estimates", exc is not None and r is None))
        return obl, {}
    obl.append(("consistent calls do not raise", exc is None))
    if r is None:
        return obl, {}
    st = r.res["state_data"].set_index("postal_code")
    st0 = base.res["state_data"].set_index("postal_code") if base is not None else None
    for s in states:
        pm = st.loc[s, "pred_margin"]
        for a in case["alphas"]:
            lo, hi = st.loc[s, "lower_%s_margin" % a], st.loc[s, "upper_%s_margin" % a]
            if call[s] == 1:
                obl.append(("%s called left: prediction >= +0.005" % s, GE(pm, 0.005)))
                if not stop[s]:
                    obl.append(("%s called left, not stopped: lower bound >= 0 at %s" % (s, a), GE(lo, 0)))
            elif call[s] == 2:
                obl.append(("%s called right: prediction <= -0.005" % s, LE(pm, -0.005)))
                if not stop[s]:
                    obl.append(("%s called right, not stopped: upper bound <= 0 at %s" % (s, a), LE(hi, 0)))
            elif stop[s]:
                obl.append(("%s stop-listed, not called: interval contains zero at %s" % (s, a), AND(LE(lo, 0), GE(hi, 0))))
            else:
                obl.append(("%s untouched: interval unchanged at %s" % (s, a),
                            AND(T.cell_equal(lo, st0.loc[s, "lower_%s_margin" % a]), T.cell_equal(hi, st0.loc[s, "upper_%s_margin" % a]))
                            if isinstance(lo, Sym) or isinstance(hi, Sym) else
                            (T.cell_equal(lo, st0.loc[s, "lower_%s_margin" % a]) and T.cell_equal(hi, st0.loc[s, "upper_%s_margin" % a]))))
        if call[s] == 0 and not stop[s]:
            obl.append(("%s untouched: prediction unchanged" % s, T.cell_equal(pm, st0.loc[s, "pred_margin"])))
    # finer tables are never adjusted
    for t in ("county_data", "unit_data"):
        if t in r.res and base is not None:
            obl += T.compare_tables(base.res[t], r.res[t], t)
    return obl, P.tables_out(r.res)


def signature(case, entry):
    nm = entry["name"]
    for s in ("AA", "BB", "CC"):
        nm = nm.replace(s, "S")
    return "%s|%s" % (entry["kind"], nm)
