"""C19 - version retrieval returns exactly the requested window despite paging and faults.

E3 (CrossHair): S3VersionUtil.list_versions against a scripted paging service, symbolic newest-first timestamps,
page size and window.  E1 (explorer): S3VersionUtil.get and VersionedDataHandler.get_versioned_results with a fake
transfer manager; window position, sampling step and the failing subset are explorer-enumerated choices.
"""
import datetime
import io
import os
import time

import numpy as np
import pandas as pd

from engine import harness as H
from engine import sym, xhair

ID = "C19"
NO_SHADOW = True
ENCODED = ["elexmodel.handlers.s3:S3VersionUtil.list_versions", "elexmodel.handlers.s3:S3VersionUtil.get",
           "elexmodel.handlers.s3:S3VersionUtil.wait_for_versions", "elexmodel.handlers.s3:S3VersionUtil.make_request",
           "elexmodel.handlers.data.VersionedData:VersionedDataHandler.get_versioned_results",
           "elexmodel.handlers.data.VersionedData:VersionedDataHandler.__init__"]
STUBS = ["S3 service: scripted fake (newest-first listing, fixed page size, KeyMarker/VersionIdMarker continuation)",
         "s3transfer TransferManager: fake whose futures fail for the chosen subset of versions"]
ASSUMES = ["the service lists versions newest first (documented S3 behaviour)", "timestamps are integers in the CrossHair part "
           "(only compared), concrete hourly datetimes in the retrieval part"]
OUTSIDE = ["more than 5 versions / page size above 3 / sampling step above 3", "every sampled download failing (pd.concat of nothing)",
           "real network faults inside boto3"]
BOUNDS = {"quick": "listing: <=5 versions, page 1..3, any int timestamps (ties allowed), optional start/end (CrossHair, all paths); "
                   "retrieval: n<=4 versions, page 1..3, step 1..3, every failing subset, window start/end in {none, each version time}, "
                   "timezones New_York / UTC", "thorough": "same with CrossHair timeout x4"}
OPTS = {"quick": dict(case_timeout_s=600), "thorough": dict(case_timeout_s=1800)}

BASE = datetime.datetime(2024, 11, 5, 20, 0, 0, tzinfo=datetime.timezone.utc)


def cases(tier):
    out = []
    for n in range(0, 5):
        for page in (1, 2, 3):
            for tz in ("America/New_York", "UTC"):
                if tz == "UTC" and page != 2:
                    continue
                out.append(dict(name="get_n%d_page%d_%s" % (n, page, tz.split("/")[-1]), n=n, page=page, tz=tz, weight=n))
    out.append(dict(name="handler_init", kind="init", weight=1))
    return out


class _Future:
    def __init__(self, fail):
        self.fail = fail

    def result(self):
        if self.fail:
            raise RuntimeError("download failed")


class FakeManager:
    def __init__(self, fails, times):
        self.fails, self.times, self.log = fails, times, []

    def download(self, bucket, path, fileobj, extra_args=None, subscribers=None):
        vid = extra_args["VersionId"]
        self.log.append(vid)
        if not self.fails[vid]:
            fileobj.write(("geographic_unit_fips,total,dem,gop,percent_expected_vote,version\n%d,%d,%d,%d,50,%d\n0%d,5,2,3,10,%d\n" % (
                vid + 1, 10 * vid + 10, 4 * vid + 4, 3 * vid + 3, vid, vid, vid)).encode())
        return _Future(self.fails[vid])


def run(ctx, case):
    if case.get("kind") == "init":
        return run_init(ctx, case)
    from crosshair_targets.c19_targets import FakeClient
    from elexmodel.handlers.s3 import S3VersionUtil
    from elexmodel.handlers.data.VersionedData import VersionedDataHandler
    from dateutil import tz as dtz

    n, page = case["n"], case["page"]
    times = [BASE - datetime.timedelta(hours=i) for i in range(n)]  # newest first
    sample = 1 + ctx.choose("sample", 3)
    fails = [bool(ctx.choose("fail_%d" % i, 2)) for i in range(n)]
    si = ctx.choose("start", n + 1)  # n = no start
    ei = ctx.choose("end", n + 1)
    start = None if si == n else times[si]
    end = None if ei == n else times[ei]
    via_handler = bool(ctx.choose("via_handler", 2))
    u = S3VersionUtil.__new__(S3VersionUtil)
    u.bucket_name, u.start_date, u.end_date, u.tz = "b", start, end, case["tz"]
    u.s3_client = FakeClient(times, page)
    u.manager = FakeManager(fails, times)
    listed = [i for i, t in enumerate(times) if (start is None or t >= start) and (end is None or t <= end)]
    wanted = listed[::sample]
    ok = [v for v in wanted if not fails[v]]
    obl = []
    if listed and not ok:
        return [("(every sampled download fails: outside the statement)", True)], {}
    if via_handler:
        h = VersionedDataHandler.__new__(VersionedDataHandler)
        h.election_id, h.office_id, h.geographic_unit_type, h.estimands = "2099-01-01_XX_G", "G", "county", ["turnout"]
        h.s3_client, h.sample, h.tz = u, sample, case["tz"]
        df = h.get_versioned_results()
    else:
        df = u.get("path", sample)
    if not listed:
        obl.append(("no version in the window -> 'no data' (None), not an error", df is None))
        return obl, {}
    obl.append(("a table is returned when at least one download succeeds", df is not None))
    if df is None:
        return obl, {}
    obl.append(("every sampled version of the window was requested exactly once, no other", sorted(u.manager.log) == sorted(wanted)))
    got_versions = sorted(set(int(v) for v in df["version"].tolist()))
    obl.append(("rows of exactly the successfully downloaded versions", got_versions == sorted(ok)))
    obl.append(("two rows per downloaded version", len(df) == 2 * len(ok)))
    zone = dtz.gettz(case["tz"])
    good_stamp = True
    for _, r in df.iterrows():
        v = int(r["version"])
        ts = r["last_modified"]
        want = times[v].astimezone(zone)
        if ts != want or ts.utcoffset() != want.utcoffset():
            good_stamp = False
    obl.append(("every row carries its own version's modification time in the requested timezone", good_stamp))
    obl.append(("feed columns are mapped to results_* columns",
                all(int(r["results_turnout"]) == int(r["total"]) and int(r["results_dem"]) == int(r["dem"]) for _, r in df.iterrows())))
    if via_handler:
        lm = df["last_modified"].tolist()
        obl.append(("handler returns the versions sorted by modification time", lm == sorted(lm)))
    return obl, {}


def run_init(ctx, case):
    """VersionedDataHandler.__init__ converts the ISO window to timezone-aware UTC instants and hands them to the lister"""
    from elexmodel.handlers import s3
    from elexmodel.handlers.data.VersionedData import VersionedDataHandler

    seen = {}

    class Rec:
        def __init__(self, bucket, start_date=None, end_date=None, tz="America/New_York"):
            seen.update(bucket=bucket, start=start_date, end=end_date, tz=tz)

    orig = s3.S3VersionUtil
    s3.S3VersionUtil = Rec
    try:
        VersionedDataHandler("2099-01-01_XX_G", "G", "county", start_date="2024-11-05T20:00:00-05:00", end_date=None)
        a = dict(seen)
        VersionedDataHandler("2099-01-01_XX_G", "G", "county", start_date=None, end_date="2024-11-06T01:30:00+00:00", tzinfo="UTC")
        b = dict(seen)
    finally:
        s3.S3VersionUtil = orig
    obl = [("start of the window is the same instant, timezone-aware", a["start"] is not None and a["start"].utcoffset() is not None
            and a["start"] == datetime.datetime(2024, 11, 6, 1, 0, 0, tzinfo=datetime.timezone.utc) and a["end"] is None),
           ("open-ended start", b["start"] is None and b["end"] == datetime.datetime(2024, 11, 6, 1, 30, tzinfo=datetime.timezone.utc)),
           ("requested timezone is passed on", a["tz"] == "America/New_York" and b["tz"] == "UTC")]
    return obl, {}


def main(tier, seed, jobs, only):
    t0 = time.time()
    code, ev, lines = H.run_module(__name__, tier, seed, jobs=jobs, only=only)
    res = xhair.run_targets("c19_targets", timeout_s=300 if tier == "quick" else 900, jobs=min(jobs, 4), only="list_versions")
    cov = ev["coverage"]
    cov["crosshair"] = [{k: r.get(k) for k in ("name", "status", "wall_s", "call", "message")} for r in res]
    cov["obligations"] += len(res)
    for r in res:
        twin = r["name"].endswith("_reach")
        if twin:
            if r["status"] == "refuted":
                cov["discharged"] += 1
            else:
                cov.setdefault("inconclusive", []).append("crosshair reachability twin %s not refuted (%s)" % (r["name"], r["status"]))
                code = max(code, 2) if code != 1 else 1
            continue
        if r["status"] == "confirmed":
            cov["discharged"] += 1
        elif r["status"] == "refuted":
            ok, what = xhair.replay("c19_targets", r["name"], r["call"])
            if ok:
                os.makedirs(os.path.join(H.VERIF, "replays"), exist_ok=True)
                path = os.path.join(H.VERIF, "replays", "C19_xhair_%s.json" % r["name"])
                import json

                json.dump(dict(property=ID, module=__name__, crosshair=dict(target=r["name"], call=r["call"], result=what)), open(path, "w"))
                lines.append("VIOLATION property=C19 replay=%s" % path)
                lines.append("  crosshair|%s|%s -> %s" % (r["name"], r["call"], what))
                ev["violations"] = ev.get("violations", 0) + 1
                code = 1
            else:
                cov.setdefault("inconclusive", []).append("crosshair counterexample %s did not reproduce" % r["call"])
                code = max(code, 2) if code != 1 else 1
        else:
            cov.setdefault("inconclusive", []).append("crosshair %s: %s" % (r["name"], r["raw"][-200:]))
            code = max(code, 2) if code != 1 else 1
    cov["exhaustive"] = code == 0
    cov["technique"] += "; CrossHair 0.0.110 (z3) for list_versions over symbolic lists/ints"
    ev["wall_s"] = round(time.time() - t0, 2)
    return code, ev, lines


def signature(case, entry):
    return "%s|%s" % (entry["kind"], entry["name"])
