"""C01 - counted votes are conserved and every unit is reported exactly once (NP / GA pipeline; BS in c01 via bsboot cases)."""
import numpy as np
import pandas as pd

from engine import sym
from engine.sym import AND, AEQ, Sym
from . import pipeline as P
from .pipeline import U

ID = "C01"
ENCODED = P.ENCODED_PIPELINE
STUBS = P.STUBS_PIPELINE + [P.CUT_STUB_NOTE]
ASSUMES = P.ASSUMES_PIPELINE
OUTSIDE = P.OUTSIDE_PIPELINE + ["margin estimand under the conformal estimators"]
BOUNDS = {
    "quick": "min reporting units (NP 4 / GA 7 / BS 10) + 1-2 nonreporting + every single and selected pairs of extra unit kinds "
             "{unexp known county, unexp new county, block, zero, strange, missing, free}; 1 state; <=3 counties, 2 districts, "
             "2 classifications; aggregate lists {state,county,classification,unit} (office G) and {state,district,county,unit} "
             "(office Y, county-district ids); both unreporting policies; estimands turnout, dem+turnout",
    "thorough": "adds all pairs of extra kinds, 2 states, 3 free units, profiles equal/dominant",
}
OPTS = {"quick": dict(case_timeout_s=900, solver_timeout_ms=30000), "thorough": dict(case_timeout_s=3000, solver_timeout_ms=60000)}

EXTRA = {
    "unexp_known": lambda i: U("c1_x%d" % i, "unexp"),
    "unexp_new": lambda i: U("c9_x%d" % i, "unexp"),
    "block": lambda i: U("b%d" % i, "block", county="c2"),
    "zero": lambda i: U("z%d" % i, "zero", county="c3"),
    "strange": lambda i: U("s%d" % i, "strange", county="c1"),
    "missing": lambda i: U("m%d" % i, "missing", county="c2"),
    "free": lambda i: U("f%d" % i, "free", county="c3"),
}


def district_extra(e):
    """ids of unexpected units for county-district unit type: <district>_<county>"""
    e = dict(e)
    if e["kind"] == "unexp":
        e["fips"] = ("d1_" if "c1" in e["fips"] else "d9_") + e["fips"]
    return e


def cases(tier):
    out = []
    singles = list(EXTRA)
    pairs = [("unexp_new", "zero"), ("block", "missing"), ("free", "unexp_known"), ("strange", "unexp_new")]
    if tier == "thorough":
        pairs = [(a, b) for i, a in enumerate(singles) for b in singles[i:]]
    for pi, nrep in (("nonparametric", 4), ("gaussian", 7)):
        alphas = [0.5] if pi == "nonparametric" else [0.7]
        combos = [(s,) for s in singles] + pairs
        for combo in combos:
            for policy in ("drop", "zero"):
                if policy == "zero" and "missing" not in combo:
                    continue
                extra = [EXTRA[k](i) for i, k in enumerate(combo)]
                name = "%s_%s_%s" % (pi[:2], "+".join(combo), policy)
                out.append(dict(name=name + "_G", pi=pi, alphas=alphas, estimands=["turnout"],
                                units=P.standard_units(nrep, 1, extra, cls=True),
                                aggregates=["postal_code", "county_fips", "county_classification", "unit"],
                                handle_unreporting=policy, cut_calibration=True, weight=nrep + 3 * len(combo) + (5 if "free" in combo else 0)))
        # district election (office Y, county-district ids), one nonreporting-only district
        for combo in [("unexp_known",), ("unexp_new", "block"), ("zero",)]:
            extra = [district_extra(EXTRA[k](i)) for i, k in enumerate(combo)]
            us = P.standard_units(nrep, 2, extra, district=True)
            for u in us:
                if u["kind"] == "non":
                    u["district"] = "d3"  # a district that exists only through nonreporting units
            out.append(dict(name="%s_%s_Y" % (pi[:2], "+".join(combo)), pi=pi, alphas=alphas, estimands=["turnout"], units=us,
                            office="Y", unit_type="county-district",
                            aggregates=["postal_code", "district", "county_fips", "unit"], cut_calibration=True,
                            weight=nrep + 8))
        # district election where 'district' itself is not among the requested aggregates
        us = P.standard_units(nrep, 2, [district_extra(EXTRA["unexp_known"](0)), district_extra(EXTRA["unexp_new"](1))], district=True)
        out.append(dict(name="%s_unexp_Y_nodistrict" % pi[:2], pi=pi, alphas=alphas, estimands=["turnout"], units=us, office="Y",
                        unit_type="county-district", aggregates=["postal_code", "county_fips", "unit"], cut_calibration=True,
                        weight=nrep + 8))
        # a baseline unit whose feed row has turnout but not yet the other estimand (both unreporting policies)
        for policy in ("drop", "zero"):
            out.append(dict(name="%s_partial_null_%s" % (pi[:2], policy), pi=pi, alphas=alphas, estimands=["dem", "turnout"],
                            units=P.standard_units(nrep, 1, [P.U("c2_p0", "partial", county="c2"), EXTRA["unexp_known"](1)], cls=True),
                            aggregates=["postal_code", "county_fips", "unit"], handle_unreporting=policy, cut_calibration=True,
                            weight=nrep + 10))
        out.append(dict(name="%s_two_estimands" % pi[:2], pi=pi, alphas=alphas, estimands=["dem", "turnout"],
                        units=P.standard_units(nrep, 1, [EXTRA["unexp_new"](0), EXTRA["block"](1)], cls=True),
                        aggregates=["postal_code", "county_fips", "unit"], cut_calibration=True, weight=nrep + 10))
    # bootstrap estimator (margin): counted margin conserved, divided by the group's predicted two-party turnout
    from . import bs as BS

    for nunexp, symb, aggs in ((1, True, ["postal_code", "county_fips", "unit"]), (2, False, ["postal_code", "county_fips", "unit"]),
                               (0, False, ["postal_code", "county_classification", "unit"])):
        out.append(dict(name="bs_unexp%d_%s" % (nunexp, aggs[1][7:12]), pi="bootstrap", alphas=[0.9], estimands=["margin"], B=2,
                        units=BS.margin_units(10, 2, nunexp, symbolic_unexpected=symb), aggregates=aggs, weight=25))
    if tier == "thorough":
        for pi, nrep in (("nonparametric", 4), ("gaussian", 7)):
            alphas = [0.5] if pi == "nonparametric" else [0.7]
            for prof in ("equal", "dominant"):
                out.append(dict(name="%s_profile_%s" % (pi[:2], prof), pi=pi, alphas=alphas, estimands=["turnout"],
                                units=P.standard_units(nrep, 2, [EXTRA["free"](0), EXTRA["unexp_new"](1)], cls=True, profile=prof),
                                aggregates=["postal_code", "county_fips", "county_classification", "unit"], cut_calibration=True,
                                weight=30))
            us = P.standard_units(nrep, 1, [EXTRA["unexp_known"](0)], cls=True)
            us2 = [dict(u, fips="B" + u["fips"], state="BB", county="q" + (u.get("county") or "1")) for u in
                   P.standard_units(2, 1, [EXTRA["zero"](0)], cls=True, profile="equal")]
            out.append(dict(name="%s_two_states" % pi[:2], pi=pi, alphas=alphas, estimands=["turnout"], units=us + us2,
                            aggregates=["postal_code", "county_fips", "county_classification", "unit"], cut_calibration=True,
                            weight=40))
            out.append(dict(name="%s_three_free" % pi[:2], pi=pi, alphas=alphas, estimands=["turnout"],
                            units=P.standard_units(nrep, 0, [EXTRA["free"](0), EXTRA["free"](1), EXTRA["free"](2)], cls=True),
                            aggregates=["postal_code", "county_fips", "unit"], cut_calibration=True, weight=60))
    return out


# ------------------------------------------------------------------ expected classification (independent of the code)
def classify(sc, u, case):
    """-> (category | None if the unit must be absent, in_table)   -- may fork on symbolic values of free units"""
    thr = case.get("threshold", 100)
    policy = case.get("handle_unreporting", "drop")
    if not u.in_baseline:
        return "unexpected"
    if u.kind == "partial":
        # only turnout has arrived: under 'drop' the row leaves the modelled data and is passed through like a unit that is not
        # expected; under 'zero' the missing count becomes 0 and the unit is treated as not reporting
        return "unexpected" if policy == "drop" else "expected:non"
    v = u.vals
    if not u.in_feed:
        if policy == "drop":
            return None
        # zero policy: results 0, expected vote 0
        if u.blocklisted:
            return "non-modeled: blocklisted"
        if u.zero_baseline:
            return "non-modeled: zero baseline"
        return "expected:non"
    if u.blocklisted:
        return "non-modeled: blocklisted"
    if u.zero_baseline:
        return "non-modeled: zero baseline"
    pev = v["pev"]
    if bool(pev >= thr):
        wr, wb = P.weights_of(sc, v)
        if bool(wr <= sc.tf_lo * wb) or bool(wr >= sc.tf_hi * wb):
            return "non-modeled: strange turnout factor"
        return "expected:rep"
    return "expected:non"


def live(u, est, policy):
    """live count of estimand for the unit as the tables must show it"""
    if not u.in_feed:
        return 0
    if est == "margin":
        return u.vals["results_dem"] - u.vals["results_gop"]
    val = u.vals["results_%s" % est]
    if sym.is_special(val):
        return 0  # a count that has not arrived contributes nothing
    return val


def expected_groups(sc, case, level_cols, cats):
    """-> {group key tuple: dict(counted=[units], rep=[units], non=[units])} for an aggregate column list"""
    ut = case.get("unit_type", "county")
    groups = {}
    for u in sc.units:
        c = cats[u.fips]
        if c is None:
            continue
        key = tuple(P.group_key(u, lv, ut) for lv in level_cols)
        modelled = c.startswith("expected")
        if "county_classification" in level_cols and not modelled:
            continue  # classification tables only carry modelled units (pinned by the repository's tests)
        if any(k is None for k in key):
            continue
        g = groups.setdefault(key, dict(counted=[], rep=[], non=[]))
        g["counted"].append(u)
        if c == "expected:rep":
            g["rep"].append(u)
        if c == "expected:non":
            g["non"].append(u)
    return groups


LEVELS = {"state_data": "postal_code", "county_data": "county_fips", "district_data": "district",
          "classification_data": "county_classification"}


def level_cols(case, table):
    from elexmodel.client import ModelClient

    return ModelClient().get_aggregate_list(case.get("office", "G"), LEVELS[table])


def run(ctx, case):
    bs_mode = case["pi"] == "bootstrap"
    if bs_mode:
        from . import bs as BS

        r = BS.run_bs_client(ctx, case)
    else:
        r = P.run_client(ctx, case)
    sc, res = r.sc, r.res
    policy = case.get("handle_unreporting", "drop")
    cats = {u.fips: classify(sc, u, case) for u in sc.units}
    obl = []
    ud = res["unit_data"]
    ids = ud["geographic_unit_fips"].tolist()
    want = sorted(f for f, c in cats.items() if c is not None)
    obl.append(("unit table lists every unit exactly once", sorted(ids) == want))
    for _, row in ud.iterrows():
        f = row["geographic_unit_fips"]
        c = cats.get(f)
        if c is None:
            continue
        catcols = [k for k in ud.columns if k.startswith("unit_category")]
        obl.append(("unit table has one category column", catcols == ["unit_category"]))
        got = row[catcols[0]]
        obl.append(("unit %s category" % f, got == (c.split(":")[0] if c.startswith("expected") else c)))
        obl.append(("unit %s reporting flag" % f, int(row["reporting"]) == (1 if c == "expected:rep" else 0)))
        u = next(x for x in sc.units if x.fips == f)
        for est in case["estimands"]:
            if u.kind == "partial" and sym.is_special(u.vals["results_%s" % est]):
                continue
            obl.append(("unit %s counted %s" % (f, est), AEQ(row["results_%s" % est], live(u, est, policy))))
    for table in LEVELS:
        if table not in res:
            continue
        cols = level_cols(case, table)
        tab = res[table]
        groups = expected_groups(sc, case, cols, cats)
        keys = [tuple(k) for k in tab[cols].itertuples(index=False, name=None)]
        obl.append(("%s has exactly the expected groups" % table, sorted(keys) == sorted(groups)))
        obl.append(("%s groups unique" % table, len(set(keys)) == len(keys)))
        for i, key in enumerate(keys):
            g = groups.get(key)
            if g is None:
                continue
            for est in case["estimands"]:
                total = P.csum(live(u, est, policy) for u in g["counted"])
                if bs_mode:
                    # margin estimand: the counted margin divided by the group's predicted two-party turnout (0 when that is 0)
                    pt = tab["pred_turnout"].iloc[i]
                    got = tab["results_%s" % est].iloc[i]
                    if sym.is_special(got):
                        obl.append(("%s %s counted margin is a number" % (table, "/".join(key)), False))
                        continue
                    obl.append(("%s %s counted margin conserved (sum of unit margins / predicted turnout)" % (table, "/".join(key)),
                                AEQ(got * pt, total)))
                    continue
                obl.append(("%s %s counted %s conserved" % (table, "/".join(key), est), AEQ(tab["results_%s" % est].iloc[i], total)))
            obl.append(("%s %s reporting count" % (table, "/".join(key)), AEQ(tab["reporting"].iloc[i], len(g["rep"]))))
    return obl, P.tables_out(res)


def signature(case, entry):
    return "%s|%s|%s|%s" % (case["pi"], case["name"].split("_", 1)[1], entry["kind"], entry["name"])
