"""C14 - enough reporting units => an estimate; too few => the dedicated error.

Part A (bit-precise, z3 QF_FP): the real NonparametricElectionModel._compute_conf_frac, get_minimum_reporting_units,
the real line `train_rows = math.floor(self.n_train * conf_frac)` (reached by running the real
get_unit_prediction_intervals -> get_unit_prediction_interval_bounds on a recording frame) and the real line
`correction_quantile = alpha * (1 + 1 / n_cal)` are executed with alpha a symbolic IEEE double; n is enumerated.
Part B (gate, reals): the real client with k reporting units around the minimum.
"""
import math

import numpy as np
import z3

from engine import sym, symfp, explorer
from engine.symfp import SymFP, FV
from . import pipeline as P

ID = "C14"
NO_SHADOW_KINDS = ("fp",)
ENCODED = [
    "elexmodel.models.NonparametricElectionModel:NonparametricElectionModel._compute_conf_frac",
    "elexmodel.models.NonparametricElectionModel:NonparametricElectionModel.get_minimum_reporting_units",
    "elexmodel.models.NonparametricElectionModel:NonparametricElectionModel.get_unit_prediction_intervals",
    "elexmodel.models.ConformalElectionModel:ConformalElectionModel.get_unit_prediction_interval_bounds",
    "elexmodel.models.GaussianElectionModel:GaussianElectionModel._compute_conf_frac",
    "elexmodel.models.GaussianElectionModel:GaussianElectionModel.get_minimum_reporting_units",
    "elexmodel.models.BootstrapElectionModel:BootstrapElectionModel.get_minimum_reporting_units",
    "elexmodel.client:ModelClient.get_estimates",
]
STUBS = P.STUBS_PIPELINE + [P.CUT_STUB_NOTE,
    "part A: reporting_units is a recording frame (shape, sample, reset_index, slicing) that stops the execution at the first "
    "data access after the split arithmetic; np.quantile records its q argument and stops",
    "part A: round(x, 2) is a 240-step table of thresholds computed from CPython's own round (self-checked on 1e5 doubles)"]
ASSUMES = P.ASSUMES_PIPELINE + ["alpha is a finite double with 0 < alpha < 1"]
OUTSIDE = ["n above the enumerated bound (part A)", "alphas other than {0.5, 0.7} and more than 9 units in the end-to-end gate (part B)",
           "the bootstrap estimator's run beyond its gate (its numeric core is stubbed elsewhere)"]
BOUNDS = {"quick": "part A: every double alpha in (0,1) x n in 1..16,20,24,32,40 (NP), n in 7..200 (GA, concrete); part B: NP alphas {0.5},{0.7},"
                   "{0.5,0.7} with 2..8 modelled reporting units, GA with 5..8, BS with 9..11; duplicate-id rejection (a feed row twice; the same id reporting under two postal codes of a two-state election)",
          "thorough": "part A: n in 1..100 plus ladder 120..5000"}
OPTS = {"quick": dict(case_timeout_s=900, solver_timeout_ms=600000), "thorough": dict(case_timeout_s=3400, solver_timeout_ms=1800000)}


def cases(tier):
    out = []
    ns = (list(range(1, 17)) + [20, 24, 32, 40]) if tier == "quick" else list(range(1, 101)) + [
        120, 150, 200, 250, 320, 400, 500, 640, 800, 1000, 1300, 1600, 2000, 2500, 3200, 4000, 5000]
    # group n's per case to amortise process start-up
    per = 1
    for i in range(0, len(ns), per):
        chunk = ns[i:i + per]
        out.append(dict(name="fp_np_n%d" % chunk[0], kind="fp", backend="cvc5", ns=chunk, weight=100 + chunk[0] % 7))
    out.append(dict(name="ga_concrete", kind="ga", ns=list(range(7, 201 if tier == "quick" else 5001)), weight=1))
    for alphas in ([0.5], [0.7], [0.5, 0.7], [0.7, 0.5]):
        need = max(math.ceil((1 + a) / (1 - a)) for a in alphas)
        for n in range(2, 9):
            out.append(dict(name="gate_np_%s_n%d" % ("+".join(map(str, alphas)), n), kind="gate", pi="nonparametric",
                            alphas=alphas, n=n, need=need, weight=n))
    # two levels whose splits differ (minimum for 0.8 in binary64: ceil(1.8 / 0.19999999999999996) = 10): each level must get its own split
    for alphas in ([0.5, 0.8], [0.8, 0.5]):
        for n in (9, 10, 11):
            out.append(dict(name="gate_np_%s_n%d" % ("+".join(map(str, alphas)), n), kind="gate", pi="nonparametric",
                            alphas=alphas, n=n, need=max(math.ceil((1 + a) / (1 - a)) for a in alphas), weight=n))
    for n in range(5, 9):
        out.append(dict(name="gate_ga_n%d" % n, kind="gate", pi="gaussian", alphas=[0.7], n=n, need=7, weight=n))
    for n in (9, 10, 11):
        out.append(dict(name="gate_bs_n%d" % n, kind="gate_bs", pi="bootstrap", alphas=[0.9], n=n, need=10, weight=n))
    out.append(dict(name="gate_free_np", kind="gate_free", pi="nonparametric", alphas=[0.5], weight=30))
    out.append(dict(name="duplicate_ids", kind="dup", pi="nonparametric", alphas=[0.5], weight=5))
    # the same unit id reporting under two postal codes (two-state election), with the reporting count above the minimum
    for pi, al in (("nonparametric", [0.5]), ("gaussian", [0.7])):
        out.append(dict(name="duplicate_ids_across_states_%s" % pi[:2], kind="dup", variant="cross_state", pi=pi, alphas=al, weight=5))
    return out


class _Stop(BaseException):
    pass


class RecFrame:
    """recording stand-in for the reporting-units frame: carries only the number of rows."""

    def __init__(self, n, log):
        self.shape = (n, 5)
        self.log = log

    def sample(self, frac=1, random_state=None):
        return self

    def reset_index(self, drop=False):
        return self

    def __getitem__(self, key):
        if isinstance(key, slice):
            self.log["train_rows"] = key.stop
            raise _Stop()
        raise _Stop()


class FakeConf:
    def __init__(self, n_cal):
        self.shape = (n_cal, 3)
        self.lower_bounds = np.zeros(1)
        self.upper_bounds = np.zeros(1)


def run_fp_one(ctx, n):
    from elexmodel.models.NonparametricElectionModel import NonparametricElectionModel as NP
    from elexmodel.models.ConformalElectionModel import PredictionIntervals
    import numpy

    if getattr(ctx, "concrete", False):
        alpha = ctx.real("alpha")
    else:
        a = z3.FP("alpha", symfp.F64)
        if "alpha" not in ctx.vars:
            ctx.vars["alpha"] = a
            ctx.var_order.append("alpha")
            ctx.assume_t(z3.And(z3.fpGT(a, FV(0.0)), z3.fpLT(a, FV(1.0))))
        alpha = SymFP(a)
    m = NP({})
    # the gate: n >= minimum required (real function)
    need = m.get_minimum_reporting_units(alpha)
    ctx.assume(need <= n)
    log = {}
    m.n_train = n  # set by get_unit_predictions in a real run (= number of modelled reporting units)
    try:
        m.get_unit_prediction_intervals(RecFrame(n, log), None, alpha, "turnout")
    except _Stop:
        pass
    tr = log.get("train_rows")
    obl = []
    if tr is None:
        return [("split arithmetic reached", False)], {}
    obl.append(("n=%d: at least one training unit" % n, tr >= 1))
    obl.append(("n=%d: at least one calibration unit" % n, tr <= n - 1))
    # second execution: the quantile rank computed by the real get_unit_prediction_intervals
    n_cal = n - tr
    qlog = {}
    orig_bounds = NP.get_unit_prediction_interval_bounds
    orig_q = numpy.quantile

    def fake_bounds(self, reporting_units, nonreporting_units, conf_frac, alpha_, estimand):
        return PredictionIntervals(None, None, FakeConf(n_cal))

    def rec_quantile(scores, q=None, **kw):
        qlog["q"] = q
        raise _Stop()

    NP.get_unit_prediction_interval_bounds = fake_bounds
    numpy.quantile = rec_quantile
    try:
        try:
            m.get_unit_prediction_intervals(RecFrame(n, {}), None, alpha, "turnout")
        except _Stop:
            pass
    finally:
        NP.get_unit_prediction_interval_bounds = orig_bounds
        numpy.quantile = orig_q
    q = qlog.get("q")
    if q is None:
        obl.append(("quantile rank reached", False))
    else:
        obl.append(("n=%d: calibration quantile rank <= 1 (np.quantile accepts it)" % n, q <= 1.0))
        obl.append(("n=%d: calibration quantile rank < 1 (some calibration score can exceed it: a finite correction exists)" % n, q < 1.0))
        obl.append(("n=%d: calibration quantile rank >= 0" % n, q >= 0.0))
    return obl, {}


def run(ctx, case):
    kind = case["kind"]
    if kind == "fp":
        obl = []
        for n in case["ns"]:
            o, _ = run_fp_one(ctx, n)
            obl += o
        return obl, {}
    if kind == "ga":
        from elexmodel.models.GaussianElectionModel import GaussianElectionModel as GA

        m = GA({})
        obl = []
        need = m.get_minimum_reporting_units(0.9)
        obl.append(("gaussian minimum is 7", need == 7))
        bad = []
        for n in case["ns"]:
            tr = math.floor(n * m._compute_conf_frac())
            if not (1 <= tr <= n - 1):
                bad.append(n)
        obl.append(("gaussian split leaves >=1 training and >=1 calibration unit for every n in bound", not bad))
        return obl, {}
    if kind == "gate_bs":
        return run_gate_bs(ctx, case)
    if kind == "gate":
        return run_gate(ctx, case)
    if kind == "gate_free":
        return run_gate_free(ctx, case)
    if kind == "dup":
        return run_dup(ctx, case)
    raise KeyError(kind)


def _client_outcome(ctx, case, units, **kw):
    from elexmodel.client import ModelNotEnoughSubunitsException, ModelClientException

    c = dict(case, units=units, estimands=["turnout"] if case["pi"] != "bootstrap" else ["margin"],
             cut_calibration=True, **kw)
    try:
        r = P.run_client(ctx, c)
        return "completed", r
    except ModelNotEnoughSubunitsException:
        return "not-enough", None
    except ModelClientException as e:
        return "client-error:" + str(e)[:60], None


def run_gate(ctx, case):
    n, need = case["n"], case["need"]
    units = P.standard_units(n, 1, [P.U("c1_x0", "unexp")], cls=True)
    extra = {}
    if case["pi"] == "bootstrap":
        extra = dict(features=["baseline_normalized_margin"], config_features=[], bs_stub=True)
    out, r = _client_outcome(ctx, case, units, **extra)
    obl = [("gate: %d reporting units, %d needed -> %s" % (n, need, "estimate" if n >= need else "dedicated error"),
            out == ("completed" if n >= need else "not-enough"))]
    if r is not None and case["pi"] == "nonparametric":
        # every level is fitted on its own split: floor(n * conf_frac(level)) training rows (at least one), the rest held out for
        # calibration, and the calibration rank alpha * (1 + 1 / n_cal) stays a valid quantile
        from elexmodel.models.NonparametricElectionModel import NonparametricElectionModel as NPM

        mdl = NPM({})
        for a in case["alphas"]:
            tr = max(math.floor(n * mdl._compute_conf_frac(n, a)), 1)
            n_cal = n - tr
            fits = [c_ for c_ in r.qr.calls if any(abs(float(t) - q) < 1e-12 for q in ((1 - a) / 2, (1 + a) / 2)
                                                    for t in ([c_["taus"]] if isinstance(c_["taus"], float) else list(c_["taus"])))]
            obl.append(("level %s: lower and upper quantile fits exist" % a, len(fits) >= 2))
            for f in fits:
                obl.append(("level %s: the interval fit uses floor(n * conf_frac) = %d training rows, %d held out" % (a, tr, n_cal),
                            np.asarray(f["y"], dtype=object).shape[0] == tr))
            obl.append(("level %s: at least one calibration unit and rank alpha*(1+1/n_cal) <= 1" % a,
                        n_cal >= 1 and a * (1 + 1 / max(n_cal, 1)) <= 1))
    return obl, (P.tables_out(r.res) if r is not None else {})


def run_gate_bs(ctx, case):
    """bootstrap estimator: 10 reporting units needed whatever the level"""
    from elexmodel.client import ModelNotEnoughSubunitsException
    from . import bs as BS

    n, need = case["n"], case["need"]
    c = dict(case, units=BS.margin_units(n, 1, 1), B=2, aggregates=["postal_code", "unit"])
    try:
        r = BS.run_bs_client(ctx, c)
        out = "completed"
    except ModelNotEnoughSubunitsException:
        out, r = "not-enough", None
    obl = [("gate (bootstrap): %d reporting units, %d needed -> %s" % (n, need, "estimate" if n >= need else "dedicated error"),
            out == ("completed" if n >= need else "not-enough"))]
    return obl, (P.tables_out(r.res) if r is not None else {})


def run_gate_free(ctx, case):
    """2 pinned reporting units + 2 free units whose expected vote decides whether they report: 2..4 reporting, 3 needed"""
    units = P.standard_units(2, 1, [P.U("f0", "free", county="c1"), P.U("f1", "free", county="c2")])
    from . import c01

    c = dict(case, units=units, estimands=["turnout"], cut_calibration=True)
    sc = P.build(ctx, c)
    from elexmodel.client import ModelNotEnoughSubunitsException

    try:
        r = P.run_client(ctx, c, sc=sc)
        out = "completed"
    except ModelNotEnoughSubunitsException:
        out, r = "not-enough", None
    cats = {u.fips: c01.classify(sc, u, c) for u in sc.units}
    n = sum(1 for v in cats.values() if v == "expected:rep")
    obl = [("gate: dedicated error iff modelled reporting units (%d) < 3" % n, out == ("completed" if n >= 3 else "not-enough"))]
    return obl, (P.tables_out(r.res) if r is not None else {})


def run_dup(ctx, case):
    import pandas as pd

    cross = case.get("variant") == "cross_state"
    units = P.standard_units(8 if cross else 4, 1)
    if cross:
        # r0 exists in state AA and in state BB (both in the prepared data and in the feed, both reporting)
        units = units + [P.U("r0", "rep", state="BB", county="c1", base=units[1]["base"]),
                         P.U("q1", "rep", state="BB", county="c1", base=units[2]["base"])]
    c = dict(case, units=units, estimands=["turnout"], cut_calibration=True)
    sc = P.build(ctx, c)
    pre, cur = sc.frames()
    if cross:
        both = cur[cur["geographic_unit_fips"] == "r0"]
        if sorted(both["postal_code"]) != ["AA", "BB"]:
            return [("scenario has unit id r0 under both postal codes", False)], {}
        cur2 = cur
    else:
        cur2 = pd.concat([cur, cur.iloc[[0]]], ignore_index=True)  # unit r0 appears twice in the feed
    from elexmodel.client import ModelClientException, ModelNotEnoughSubunitsException

    try:
        P.run_client(ctx, c, sc=sc, frames=(pre, cur2))
        out = "completed"
    except ModelNotEnoughSubunitsException:
        out = "not-enough"
    except ModelClientException:
        out = "client-error"
    return [("duplicate reporting unit id is rejected with a client error", out == "client-error")], {}


def signature(case, entry):
    return "%s|%s|%s" % (case["kind"], entry["kind"], entry["name"] if case["kind"] != "fp" else entry["name"].split(":", 1)[-1].strip())
