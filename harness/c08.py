"""C08 - the national summary is bounded, ordered, and depends only on the contests."""
import itertools

import numpy as np

from engine import sym
from engine.sym import AND, GE, LE, AEQ, Sym
from . import pipeline as P
from . import bs as BS
from . import tworun as T

ID = "C08"
ENCODED = BS.ENCODED_BS
STUBS = BS.STUBS_BS + ["scipy.special.expit (soft cases, symbolic argument z = T*margin): a fresh real e per distinct argument term, constrained by "
                       "0 < e < 1, sign link (z > 0 <-> e > 1/2, z = 0 <-> e = 1/2), monotonicity / equality against every other expit argument of the "
                       "path, and a sound piecewise-linear envelope (chords below / tangents above on z >= 0, mirrored for z < 0, breakpoints "
                       "0, .5, 1, 2, 3, 4, 6, 8); concrete arguments use the real expit; candidates are replayed with the real expit"]
ASSUMES = BS.ASSUMES_BS + ["contest weights and base are concrete (three weightings incl. fractional weights and a negative base)"]
OUTSIDE = ["more than 2 contests with symbolic draws (the draw-by-draw sign comparisons fork 2^(contests*2B) ways)",
           "soft threshold: values of the sigmoid beyond the envelope stub (only the ordering clause is claimed there, as in the statement); temperatures "
           "other than T = 5 and 5000 in the soft cases", "B above 2"]
BOUNDS = {"quick": "2 contests, B = 2 draws, levels {0.5, 0.9}, symbolic margin draws for one contest at a time (the other contest has concrete draws); hard threshold, correlation on/off; "
                   "called / stop-listed subsets; soft threshold (sigmoid, T = 5 and the default 5000; correlation on/off; no calls / lhs call / stop list) with the ordering clause; history clause: every list and order of aggregates computed before the summary over "
                   "{postal_code, county_fips, county_classification} must give the same summary as the contests alone; several summary requests with different weights after one run; wrong-size dictionary",
          "thorough": "adds one case (correlation off) with both contests' draws symbolic at once and history cases for the other contest"}
OPTS = {"quick": dict(case_timeout_s=900, solver_timeout_ms=30000, max_paths=200000),
        "thorough": dict(case_timeout_s=3300, solver_timeout_ms=60000, max_paths=2000000)}


def cases(tier):
    out = []
    units = BS.margin_units(6, 1, 0, states=("AA", "BB"))
    for corr in (True, False):
        for calls in ({}, {"lhs": ["AA"]}, {"rhs": ["BB"]}, {"stop": ["AA"]}, {"lhs": ["AA"], "stop": ["AA", "BB"]}):
            for wi, (weights, base) in enumerate((([11, 16], 100), ([1, 1], 0), ([0.5, 7.25], -3))):
                if wi and (calls or tier == "quick" and not corr):
                    continue
                nm = "summary_%s_%s_w%d" % ("corr" if corr else "nocorr",
                                            "_".join("%s%s" % (k, "".join(v)) for k, v in calls.items()) or "nocalls", wi)
                out.append(dict(name=nm, kind="summary", corr=corr, calls=calls, B=2, alphas=[0.5, 0.9], units=units, weights=weights,
                                base=base, aggregates=["postal_code", "unit"], weight=30,
                                symbolic_rows=[0]))
                if True:
                    out.append(dict(out[-1], name=nm + "_row1", symbolic_rows=[1]))
    levels = ["postal_code", "county_fips", "county_classification"]
    orders = []
    for k in (1, 2, 3):
        for combo in itertools.permutations(levels, k):
            if "postal_code" in combo:
                orders.append(list(combo))
    for o in orders:
        out.append(dict(name="history_%s" % "+".join(a.split("_")[-1][:5] for a in o), kind="history", order=o, B=2, alphas=[0.9],
                        units=units, symbolic_rows=[0], weight=20))
    if tier == "thorough":
        # both contests with symbolic draws at once (thousands of sign patterns per case)
        for corr in (False,):  # (with correlation on, 55 minutes were not enough to exhaust the case)
            out.append(dict(name="summary_%s_nocalls_both_rows" % ("corr" if corr else "nocorr"), kind="summary", corr=corr, calls={}, B=2,
                            alphas=[0.9], units=units, weights=[11, 16], base=100, aggregates=["postal_code", "unit"], weight=500))
        for o in (["postal_code", "county_fips"], ["county_fips", "postal_code"]):
            out.append(dict(name="history_row1_%s" % "+".join(a.split("_")[-1][:5] for a in o), kind="history", order=o, B=2, alphas=[0.9],
                            units=units, symbolic_rows=[1], weight=20))
    for corr in (True, False):
        for T_ in (5, 5000):
            for calls in ({}, {"lhs": ["AA"]}, {"stop": ["AA"]}):
                if T_ == 5000 and calls:
                    continue
                for row in (0, 1):
                    if row and (calls or tier == "quick" and T_ == 5000):
                        continue
                    out.append(dict(name="soft_%s_T%d_%s_row%d" % ("corr" if corr else "nocorr", T_,
                                                                   "_".join("%s%s" % (k, "".join(v)) for k, v in calls.items()) or "nocalls", row),
                                    kind="summary", soft=True, T=T_, corr=corr, calls=calls, B=2, alphas=[0.9], units=units,
                                    weights=[11, 16], base=100, aggregates=["postal_code", "unit"], weight=40, symbolic_rows=[row],
                                    symbolic_mats=("e1", "yz")))
    for corr in (True, False):
        out.append(dict(name="repeated_requests_%s" % ("corr" if corr else "nocorr"), kind="repeat", corr=corr, B=2, alphas=[0.9],
                        units=units, aggregates=["postal_code", "unit"], symbolic_rows=[0], weight=25))
    out.append(dict(name="wrong_size_dict", kind="wrong", B=2, alphas=[0.9], units=units, aggregates=["postal_code", "unit"], weight=5))
    return out


class ExpitStub:
    """scipy.special.expit as imported by BootstrapElectionModel, for object arrays with symbolic cells (see STUBS)."""
    BREAKS = (0.0, 0.5, 1.0, 2.0, 3.0, 4.0, 6.0, 8.0)

    def __init__(self, ctx):
        self.ctx, self.seen, self.n = ctx, {}, 0

    def install(self):
        import elexmodel.models.BootstrapElectionModel as M
        self.M, self.orig = M, M.expit
        if not getattr(self.ctx, "concrete", False):
            M.expit = self.expit
        return self

    def uninstall(self):
        self.M.expit = self.orig

    def expit(self, arr):
        a = np.asarray(arr)
        if a.dtype != object:
            return self.orig(arr)
        out = np.empty(a.shape, dtype=object)
        for idx in np.ndindex(*a.shape):
            out[idx] = self.one(a[idx])
        return out

    def one(self, x):
        import fractions
        import math
        import z3
        x = Sym.lift(x)
        if not isinstance(x, Sym):
            return float(self.orig(x))
        z = z3.simplify(x.t)
        key = z.sexpr()
        if key in self.seen:
            return Sym(self.seen[key][1])
        if sym._is_const(z):
            zf = float(fractions.Fraction(z.as_fraction())) if z3.is_rational_value(z) else float(z.approx(20).as_fraction())
            e = sym.RV(float(self.orig(zf)))
        else:
            self.n += 1
            e = self.ctx.real("expit%d" % self.n).t
            c, R = self.ctx, z3.RealVal
            half = R("1/2")
            # (non-strict: in binary64 the sigmoid saturates at 0 / 1 and equals 1/2 for tiny arguments)
            c.assume_t(z3.And(e >= 0, e <= 1, z3.Implies(z >= 0, e >= half), z3.Implies(z <= 0, e <= half)))
            f = lambda v: 1.0 / (1.0 + math.exp(-v))  # noqa: E731
            down = lambda v: sym.RV(fractions.Fraction(math.floor(v * 10 ** 9), 10 ** 9))  # noqa: E731
            up = lambda v: sym.RV(fractions.Fraction(math.ceil(v * 10 ** 9), 10 ** 9))  # noqa: E731
            B = self.BREAKS
            for zz, ee in ((z, e), (-z, 1 - e)):  # expit(-z) = 1 - expit(z)
                cons = [ee <= half + zz / 4]
                for b0, b1 in zip(B, B[1:]):
                    slope = (f(b1) - f(b0)) / (b1 - b0)
                    cons.append(z3.Implies(z3.And(zz >= R(str(b0)), zz <= R(str(b1))), ee >= down(f(b0) - 1e-9) + down(slope) * (zz - R(str(b0)))))
                cons.append(z3.Implies(zz >= R(str(B[-1])), ee >= down(f(B[-1]) - 1e-9)))
                for b in B[1:]:
                    cons.append(ee <= up(f(b) + 1e-9) + up(f(b) * (1 - f(b))) * (zz - R(str(b))) + z3.If(zz < R(str(b)), R("1/1000000"), R(0)))
                c.assume_t(z3.Implies(zz >= 0, z3.And(*cons)))
        for k, (z2, e2) in self.seen.items():
            self.ctx.assume_t(z3.And(z3.Implies(z < z2, e <= e2), z3.Implies(z > z2, e >= e2), z3.Implies(z == z2, e == e2))
                              if not (sym._is_const(z) and sym._is_const(z2)) else z3.BoolVal(True))
        self.seen[key] = (z, e)
        return Sym(e)


def summary_of(ctx, case, r, weights, base, alphas):
    df = r.client.get_national_summary_votes_estimates(dict(weights) if weights is not None else None, base, alphas)
    return df


def run(ctx, case):
    from elexmodel.models.BootstrapElectionModel import BootstrapElectionModelException

    states = sorted({u["state"] for u in case["units"]})
    # weights and base: concrete (the summary rounds to 2 decimals; symbolic weights make every query a mixed
    # integer problem about rounding, which is not what the property is about) - three weightings are cases
    w = dict(zip(states, case.get("weights", [11, 16, 3])))
    base = case.get("base", 100)
    sc = BS.build_bs(ctx, case)
    boot = BS.BootStub(ctx, case["B"], symbolic_rows=case.get("symbolic_rows"), symbolic_mats=case.get("symbolic_mats")).install()
    soft = ExpitStub(ctx).install() if case.get("soft") else None
    try:
        if case["kind"] == "wrong":
            r = BS.run_bs_client(ctx, case, sc=sc, boot=boot)
            try:
                r.client.get_national_summary_votes_estimates({"AA": 1}, 0, [0.9])
                ok = False
            except BootstrapElectionModelException:
                ok = True
            return [("a weight dictionary of the wrong size is rejected", ok)], {}
        if case["kind"] == "repeat":
            # several summary requests after one estimate run: each answer depends on its own arguments only
            c = dict(case, model_parameters={"national_summary_correlation": case["corr"]})
            r = BS.run_bs_client(ctx, c, sc=sc, boot=boot)
            wA, wB = {"AA": 11, "BB": 16}, {"AA": 3, "BB": 2.5}
            first = summary_of(ctx, case, r, wA, 100, [0.9]).copy()
            second = summary_of(ctx, case, r, wB, -7, [0.5, 0.9]).copy()
            third = summary_of(ctx, case, r, wA, 100, [0.9]).copy()
            ref = BS.run_bs_client(ctx, c, sc=sc, boot=boot)
            alone = summary_of(ctx, case, ref, wB, -7, [0.5, 0.9]).copy()
            obl = [("a repeated request gives the same columns", list(first.columns) == list(third.columns) and
                    list(second.columns) == list(alone.columns))]
            for col_ in alone.columns:
                if col_ != "estimand" and col_ in second.columns:
                    obl.append(("second request %s equals the same request made alone" % col_, T.cell_equal(second[col_].iloc[0], alone[col_].iloc[0])))
            for col_ in first.columns:
                if col_ != "estimand" and col_ in third.columns:
                    obl.append(("repeating the first request gives %s again" % col_, T.cell_equal(first[col_].iloc[0], third[col_].iloc[0])))
            return obl, {"second": second.drop(columns=["estimand"])}
        if case["kind"] == "history":
            ref = BS.run_bs_client(ctx, dict(case, aggregates=["postal_code", "unit"]), sc=sc, boot=boot)
            ref_df = summary_of(ctx, case, ref, w, base, case["alphas"])
            try:
                r = BS.run_bs_client(ctx, dict(case, aggregates=case["order"] + ["unit"]), sc=sc, boot=boot)
                df = summary_of(ctx, case, r, w, base, case["alphas"])
            except BootstrapElectionModelException as e:
                return [("summary does not fail because finer aggregates were requested (%s)" % "+".join(case["order"]), False)], {}
            obl = []
            for c in ref_df.columns:
                if c == "estimand":
                    continue
                obl.append(("summary %s independent of the aggregates requested (%s)" % (c, "+".join(case["order"])),
                            T.cell_equal(ref_df[c].iloc[0], df[c].iloc[0])))
            return obl, {"summary": df.drop(columns=["estimand"])}
        calls = case["calls"]
        c = dict(case, lhs_called_contests=calls.get("lhs", []), rhs_called_contests=calls.get("rhs", []),
                 stop_model_call=calls.get("stop", []), model_parameters={"national_summary_correlation": case["corr"]})
        if soft:
            c["model_parameters"].update(agg_model_hard_threshold=False, T=case["T"])
        r = BS.run_bs_client(ctx, c, sc=sc, boot=boot)
        df = summary_of(ctx, case, r, w, base, case["alphas"])
    finally:
        boot.uninstall()
        if soft:
            soft.uninstall()
    if soft:
        # the statement claims only the ordering for the sigmoid mode; no outputs for the shadow comparison (the stub's value of
        # the sigmoid is not the float value)
        pred = df["agg_pred"].iloc[0]
        obl = [("the sigmoid was reached with a symbolic argument", soft.n > 0)]
        for a in case["alphas"]:
            lo, hi = df["lower_%s" % a].iloc[0], df["upper_%s" % a].iloc[0]
            obl.append(("soft threshold: lower <= prediction <= upper at %s" % a, AND(LE(lo, pred), LE(pred, hi))))
        return obl, {}
    st = r.res["state_data"].set_index("postal_code")
    total = P.csum(w.values())
    pred = df["agg_pred"].iloc[0]
    obl = []
    want_pred = base + P.csum(sym.ite(st.loc[s, "pred_margin"] > 0, w[s], 0) if isinstance(st.loc[s, "pred_margin"] > 0, sym.SymBool)
                              else (w[s] if st.loc[s, "pred_margin"] > 0 else 0) for s in states)
    # the summary is rounded to 2 decimals: identities are asserted up to that rounding (|rounded - exact| <= 0.005)
    EPS = 0.005000001
    obl.append(("prediction = base + weights of the contests whose reported margin is positive",
                AND(LE(pred, want_pred + EPS), GE(pred, want_pred - EPS))))
    # a stop-listed contest stays uncertain even when it is also called (the stop list overrides a call, as for the intervals in C07)
    called = (set(calls.get("lhs", [])) | set(calls.get("rhs", []))) - set(calls.get("stop", []))
    uncalled_w = P.csum(w[s] for s in states if s not in called)
    for a in case["alphas"]:
        lo, hi = df["lower_%s" % a].iloc[0], df["upper_%s" % a].iloc[0]
        obl.append(("lower <= prediction <= upper at %s" % a, AND(LE(lo, pred), LE(pred, hi))))
        obl.append(("within [base, base + total weight] at %s" % a, AND(GE(lo, base - EPS), LE(hi, base + total + EPS))))
        # called contests contribute no uncertainty: the bounds differ from the prediction by at most the uncalled weights
        obl.append(("called contests add no uncertainty at %s" % a,
                    AND(GE(lo, want_pred - uncalled_w - EPS), LE(hi, want_pred + uncalled_w + EPS))))
    return obl, {"summary": df.drop(columns=["estimand"])}


def round2(x):
    if isinstance(x, Sym):
        return x.__round__(2)
    return round(x, 2)


def signature(case, entry):
    if case["kind"] == "history":
        return "history|%s|%s|%s" % ("+".join(case["order"]), entry["kind"], entry["name"].split(" (")[0])
    return "%s|%s|%s" % (case["kind"], entry["kind"], entry["name"])
