"""C13 - what is reported for one request does not depend on what else was requested (self-composition)."""
import pandas as pd

from engine import sym
from . import pipeline as P
from . import tworun as T

ID = "C13"
ENCODED = P.ENCODED_PIPELINE
STUBS = P.STUBS_PIPELINE + [P.CUT_STUB_NOTE, "boot_sigma modelled as a deterministic function of its data (its seeding is C12's subject)"]
ASSUMES = P.ASSUMES_PIPELINE + ["complete feeds (every unit of the feed has every requested estimand)"]
OUTSIDE = P.OUTSIDE_PIPELINE + ["bootstrap estimator (margin only; its request independence across aggregate lists is C08's history clause)"]
BOUNDS = {"quick": "NP (6 reporting) / GA (7 reporting), 2 nonreporting, 1 unexpected, 1 blocklisted; request pairs: alphas {a} vs {a,b} and "
                   "reversed order; aggregates subset / superset / reordered over {state, county, classification, unit} and office Y "
                   "{state, district, county, unit}; estimands {turnout} vs {dem,turnout} vs {turnout,dem}",
          "thorough": "adds 3 estimands {dem, gop, turnout} and 3 alphas"}
OPTS = {"quick": dict(case_timeout_s=900, solver_timeout_ms=30000), "thorough": dict(case_timeout_s=3000, solver_timeout_ms=60000)}


def cases(tier):
    out = []
    full_aggs = ["postal_code", "county_fips", "county_classification", "unit"]
    for pi, nrep, a1, a2 in (("nonparametric", 6, 0.5, 0.7), ("gaussian", 7, 0.7, 0.9)):
        base = dict(pi=pi, units=P.standard_units(nrep, 2, [P.U("c2_x0", "unexp"), P.U("b0", "block", county="c1")], cls=True),
                    cut_calibration=True, boot_sigma_deterministic=True, weight=nrep)
        variants = [
            ("alphas_subset", dict(alphas=[a1], estimands=["turnout"], aggregates=full_aggs),
             dict(alphas=[a1, a2], estimands=["turnout"], aggregates=full_aggs)),
            ("alphas_subset_high", dict(alphas=[a2], estimands=["turnout"], aggregates=full_aggs),
             dict(alphas=[a1, a2], estimands=["turnout"], aggregates=full_aggs)),
            ("alphas_order", dict(alphas=[a1, a2], estimands=["turnout"], aggregates=full_aggs),
             dict(alphas=[a2, a1], estimands=["turnout"], aggregates=full_aggs)),
            ("aggs_subset", dict(alphas=[a1], estimands=["turnout"], aggregates=["postal_code", "unit"]),
             dict(alphas=[a1], estimands=["turnout"], aggregates=full_aggs)),
            ("aggs_order", dict(alphas=[a1], estimands=["turnout"], aggregates=full_aggs),
             dict(alphas=[a1], estimands=["turnout"], aggregates=["unit", "county_classification", "county_fips", "postal_code"])),
            ("aggs_no_unit", dict(alphas=[a1], estimands=["turnout"], aggregates=["postal_code", "county_fips"]),
             dict(alphas=[a1], estimands=["turnout"], aggregates=full_aggs)),
            ("estimands_subset", dict(alphas=[a1], estimands=["turnout"], aggregates=full_aggs),
             dict(alphas=[a1], estimands=["dem", "turnout"], aggregates=full_aggs)),
            ("estimands_order", dict(alphas=[a1], estimands=["dem", "turnout"], aggregates=full_aggs),
             dict(alphas=[a1], estimands=["turnout", "dem"], aggregates=full_aggs)),
        ]
        if tier == "thorough":
            variants.append(("three_estimands", dict(alphas=[a1], estimands=["turnout"], aggregates=full_aggs),
                             dict(alphas=[a1, a2], estimands=["dem", "gop", "turnout"], aggregates=full_aggs)))
        for nm, ra, rb in variants:
            out.append(dict(base, name="%s_%s" % (pi[:2], nm), req_a=ra, req_b=rb))
        y_aggs = ["postal_code", "district", "county_fips", "unit"]
        out.append(dict(pi=pi, name="%s_Y_estimands" % pi[:2], office="Y", unit_type="county-district",
                        units=P.standard_units(nrep, 2, [P.U("d1_c2_x0", "unexp")], district=True), cut_calibration=True,
                        boot_sigma_deterministic=True, weight=nrep + 4,
                        req_a=dict(alphas=[a1], estimands=["turnout"], aggregates=y_aggs),
                        req_b=dict(alphas=[a1], estimands=["dem", "turnout"], aggregates=y_aggs)))
    return out


KEY_OR_CATEGORY = ("postal_code", "geographic_unit_fips", "county_fips", "district", "county_classification", "reporting",
                   "unit_category")


def run(ctx, case):
    all_est = sorted(set(case["req_a"]["estimands"]) | set(case["req_b"]["estimands"]))
    sc = P.build(ctx, dict(case, estimands=all_est))
    pre, cur = sc.frames()
    ra = P.run_client(ctx, dict(case, **case["req_a"]), sc=sc, frames=(pre.copy(), cur.copy()))
    rb = P.run_client(ctx, dict(case, **case["req_b"]), sc=sc, frames=(pre.copy(), cur.copy()))
    a, b = ra.res, rb.res
    obl = []
    for t in sorted(set(a) & set(b)):
        ta, tb = a[t], b[t]
        # key / category columns: same names however many estimands were requested
        ka = [c for c in ta.columns if c.startswith(KEY_OR_CATEGORY)]
        kb = [c for c in tb.columns if c.startswith(KEY_OR_CATEGORY)]
        obl.append(("%s: same key and category columns in both requests" % t, sorted(ka) == sorted(kb)))
        obl.append(("%s: key and category columns are not duplicated" % t,
                    all(c in KEY_OR_CATEGORY for c in ka) and all(c in KEY_OR_CATEGORY for c in kb)))
        common = [c for c in ta.columns if c in tb.columns and c not in T.KEYCOLS]
        obl += T.compare_tables(ta, tb, t, cols=True, only_cols=common)
    for t in set(a) ^ set(b):
        want_a = set(_tables(case["req_a"]["aggregates"]))
        want_b = set(_tables(case["req_b"]["aggregates"]))
        obl.append(("table %s returned iff requested" % t, (t in a) == (t in want_a) and (t in b) == (t in want_b)))
    return obl, {"a": P.tables_out(a), "b": P.tables_out(b)}


def _tables(aggs):
    from elexmodel.utils.constants import VALID_AGGREGATES_MAPPING

    return [VALID_AGGREGATES_MAPPING[x] for x in aggs]


def signature(case, entry):
    nm = entry["name"]
    return "%s|%s|%s|%s" % (case["pi"], case["name"].split("_", 1)[1], entry["kind"], nm[:90])
