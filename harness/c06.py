"""C06 - bootstrap intervals are ordered, nested by level, and margins stay in [-1, 1].

Part 1 (bit-precise, cvc5 QF_FP): the real _get_quantiles(alpha) for every double alpha in (0,1), B enumerated.
Part 2 (reals): the real compute_bootstrap_errors body with stubbed numeric leaves establishes I_boot.
Part 3 (reals): the real unit / aggregate interval functions, through the client, from arbitrary I_boot draws.
"""
import math

import numpy as np
import pandas as pd
import z3

from engine import sym, symfp, stubs
from engine.sym import AND, OR, GE, LE, LT, GT, AEQ, Sym
from engine.symfp import SymFP, FV
from . import pipeline as P
from . import bs as BS
from . import c01

ID = "C06"
ENCODED = BS.ENCODED_BS + ["elexmodel.models.BootstrapElectionModel:BootstrapElectionModel.compute_bootstrap_errors",
                           "elexmodel.models.BootstrapElectionModel:BootstrapElectionModel._generate_nonreporting_bounds"]
STUBS = BS.STUBS_BS + [
    "iboot cases: OLSRegressionSolver.fit/predict/residuals, _estimate_epsilon, _estimate_strata_dist, _bootstrap_errors, "
    "_sample_test_errors return fresh arbitrary reals of the real shapes (no contract); everything else in "
    "compute_bootstrap_errors (bounds, clipping, products, means) is the real code"]
ASSUMES = BS.ASSUMES_BS + ["model parameters y/z_unobserved_* within their documented ranges (|y| <= 1, 0 <= z_lower <= z_upper)"]
OUTSIDE = ["B above the bound for the value-level clauses (rank validity covers the listed B)",
           "symbolic turnout draws in the interval cases (quotients of two symbolic sums: z3 did not finish B=2 with one outstanding "
           "unit in 26 minutes); they are symbolic in the I_boot cases", "the OLS / strata / generator numerics",
           "extrapolation and presidential-correction options (off by default)"]
BOUNDS = {"quick": "ranks: every double alpha in (0,1) x B in 2..12, 16, 20, 32, 50, 64, 100, 500, 1000; I_boot: (B, units) in {(2,1),(2,2),(3,1)}, 1-2 nonreporting "
                   "units with symbolic expected vote / partial margin / turnout factor; intervals: 10 reporting, 3 nonreporting, 1 unexpected "
                   "unit, B=2 with level pairs {0.5,0.9} {0.7,0.99} and B=3 with {0.7,0.99}, state + county / classification aggregates, margin draws symbolic, "
                   "turnout draws concrete",
          "thorough": "ranks: B in 2..64 and a ladder to 2000; I_boot: up to (3,2); intervals: B=3 with all level pairs, B=4 with {0.7, 0.99}"}
OPTS = {"quick": dict(case_timeout_s=900, solver_timeout_ms=120000), "thorough": dict(case_timeout_s=3300, solver_timeout_ms=600000)}


def cases(tier):
    out = []
    Bs = list(range(2, 13)) + [16, 20, 32, 50, 64, 100, 500, 1000]
    if tier == "thorough":
        Bs = list(range(2, 65)) + [80, 100, 128, 200, 256, 500, 512, 1000, 1024, 2000]
    for B in Bs:
        # the level range is split at 2^-52: below it (1 - alpha) / 2 rounds to exactly 0.5 (see known_findings.json)
        out.append(dict(name="ranks_B%d" % B, kind="ranks", backend="cvc5", B=B, region="alpha>=2^-52", weight=50))
        out.append(dict(name="ranks_tiny_alpha_B%d" % B, kind="ranks", backend="cvc5", B=B, region="alpha<2^-52", weight=40))
    for B, nt in ((2, 1), (2, 2), (3, 1)) if tier == "quick" else ((2, 1), (2, 2), (3, 1), (3, 2)):
        out.append(dict(name="iboot_B%d_n%d" % (B, nt), kind="iboot", B=B, n_test=nt, weight=40 * nt))
    # the non-default correct_from_presidential option shifts the bootstrapped margins before they are clipped
    out.append(dict(name="iboot_presidential_B2_n1", kind="iboot", B=2, n_test=1, presidential=True, weight=40))
    for B in (2, 3) if tier == "quick" else (2, 3, 4):
        for aggs in (["postal_code", "county_fips", "unit"], ["postal_code", "county_classification", "unit"]):
            for alphas in ([0.5, 0.9], [0.7, 0.99]):
                if (tier == "quick" and B == 3 and alphas[0] == 0.5) or (B == 4 and alphas[0] == 0.5):
                    continue  # B=3 with {0.5, 0.9}: 5 min of z3 per case (thorough tier); B=5 did not finish in 55 min
                out.append(dict(name="intervals_B%d_%s_%s" % (B, aggs[1][:6], alphas[1]), kind="intervals", B=B, alphas=alphas,
                                units=BS.margin_units(10, 3, 1), aggregates=aggs, weight=30 * B))
                if "county_classification" in aggs:
                    out.append(dict(name="intervals_B%d_%s_%s_nounexp" % (B, aggs[1][:6], alphas[1]), kind="intervals", B=B,
                                    alphas=alphas, units=BS.margin_units(10, 3, 0), aggregates=aggs, weight=30 * B))

    # an uncontested, fully counted contest: predicted margin exactly +1 (and -1 for the mirror image)
    import copy

    for side in ("dem", "gop"):
        us = copy.deepcopy(BS.margin_units(5, 1, 0, states=("AA", "BB")))
        us = [u for u in us if not (u["state"] == "BB" and u["kind"] == "non")]
        for u in us:
            if u["state"] == "BB":
                a_, b_ = ("dem", "gop") if side == "dem" else ("gop", "dem")
                u["res"][a_] = u["res"]["dem"] + u["res"]["gop"]  # same two-party total (the unit stays eligible)
                u["res"][b_] = 0
        out.append(dict(name="intervals_uncontested_%s" % side, kind="intervals", B=2, alphas=[0.5, 0.9], units=us,
                        aggregates=["postal_code", "county_fips", "unit"], weight=20))
    return out


def run(ctx, case):
    return {"ranks": run_ranks, "iboot": run_iboot, "intervals": run_intervals}[case["kind"]](ctx, case)


def run_ranks(ctx, case):
    from elexmodel.models.BootstrapElectionModel import BootstrapElectionModel as BEM

    B = case["B"]
    if getattr(ctx, "concrete", False):
        alpha = ctx.real("alpha")
    else:
        a = z3.FP("alpha", symfp.F64)
        ctx.vars["alpha"] = a
        ctx.var_order.append("alpha")
        ctx.assume_t(z3.And(z3.fpGT(a, FV(0.0)), z3.fpLT(a, FV(1.0))))
        cut = FV(2.0 ** -52)
        ctx.assume_t(z3.fpGEQ(a, cut) if case["region"] == "alpha>=2^-52" else z3.fpLT(a, cut))
        alpha = SymFP(a)
    m = BEM({"features": ["baseline_normalized_margin"], "B": B})
    lo, hi = m._get_quantiles(alpha)
    lo = lo.item() if isinstance(lo, np.ndarray) else lo
    hi = hi.item() if isinstance(hi, np.ndarray) else hi
    obl = [("B=%d: 0 <= lower rank" % B, lo >= 0.0), ("B=%d: lower rank <= upper rank" % B, lo <= hi),
           ("B=%d: upper rank <= 1" % B, hi <= 1.0),
           # index arithmetic of the national summary: floor(lower*2B) <= ceil(upper*2B) <= 2B - 1
           ("B=%d: summary indices in range" % B, _ceil(hi * B * 2) <= 2 * B - 1),
           ("B=%d: summary indices ordered" % B, _floor(lo * B * 2) <= _ceil(hi * B * 2))]
    return obl, {}


def _floor(x):
    return x.floor() if isinstance(x, SymFP) else math.floor(x)


def _ceil(x):
    return x.ceil() if isinstance(x, SymFP) else math.ceil(x)


# ------------------------------------------------------------------------------------------------ I_boot
class LeafStubs:
    """uf=False: every leaf returns fresh arbitrary reals (over-approximation: nothing is assumed, not even determinism);
    uf=True: every leaf is an uninterpreted function of the arguments it is given (equal arguments -> equal results), used by the
    2-safety cases of C10"""

    def __init__(self, ctx, uf=False):
        self.ctx = ctx
        self.n = 0
        self.uf = uf

    def fresh(self, shape, tag, args=None):
        self.n += 1
        c = self.ctx
        if self.uf:
            from engine import stubs as ST

            size = int(np.prod(shape))
            vals = ST.stub_values(c, "BS_%s_%s" % (tag, "x".join(map(str, shape))), ST.cells(*[a for a in (args or []) if a is not None]), size,
                                  label="%s%d" % (tag, self.n))
            a = np.empty(size, dtype=object if not getattr(c, "concrete", False) else float)
            a[:] = vals
            return a.reshape(shape)
        a = np.empty(shape, dtype=object if not getattr(c, "concrete", False) else float)
        for idx in np.ndindex(*shape):
            a[idx] = c.real("%s%d_%s" % (tag, self.n, "_".join(map(str, idx))), -10 ** 6, 10 ** 6)
        return a

    def install(self):
        from elexsolver.OLSRegressionSolver import OLSRegressionSolver as OLS
        from elexmodel.models.BootstrapElectionModel import BootstrapElectionModel as BEM

        L = self
        self.saved = [(OLS, n, getattr(OLS, n)) for n in ("fit", "predict", "residuals")] + [
            (BEM, n, getattr(BEM, n)) for n in ("_estimate_epsilon", "_estimate_strata_dist", "_bootstrap_errors", "_sample_test_errors")]

        L.fit_widths, L.predict_widths, L.fit_x = [], [], []

        def ols_fit(self, x, y, weights=None, lambda_=0.0, normal_eqs=None, fit_intercept=True, regularize_intercept=False,
                    n_feat_ignore_reg=0):
            L.fit_widths.append(x.shape[1])
            L.fit_x.append(np.asarray(x, dtype=object))
            self._ycols = y.shape[1] if y.ndim > 1 else 1
            self.normal_eqs = "NE"
            self._fit_args = [x, y, weights]
            self.coefficients = L.fresh((x.shape[1], self._ycols), "coef", [x, y, weights])

        OLS.fit = ols_fit
        def ols_predict(self, x):
            L.predict_widths.append(x.shape[1])
            return L.fresh((x.shape[0], self._ycols), "olsp", [x, self.coefficients])

        OLS.predict = ols_predict
        OLS.residuals = lambda self, y, y_hat, loo=True, center=True: L.fresh(y.shape, "olsr", [y, y_hat] + self._fit_args[:1])
        BEM._estimate_epsilon = lambda self, residuals, agg: L.fresh((agg.shape[1], residuals.shape[1]), "eps", [residuals, agg])
        BEM._estimate_strata_dist = lambda self, *a, **k: ({}, {})
        BEM._bootstrap_errors = lambda self, e1, e2, d1, d2, xs, *a: (
            (L.fresh((e1.shape[0], self.B), "eyB", [e1, e2, d1, d2]), L.fresh((e1.shape[0], self.B), "ezB", [e1, e2, d1, d2])),
            (L.fresh((xs.shape[0], self.B), "dyB", [e1, e2, d1, d2]), L.fresh((xs.shape[0], self.B), "dzB", [e1, e2, d1, d2])))
        BEM._sample_test_errors = lambda self, r1, r2, e1, e2, xts, *a: (
            L.fresh((xts.shape[0], self.B), "ty", [r1, r2, e1, e2, xts]), L.fresh((xts.shape[0], self.B), "tz", [r1, r2, e1, e2, xts]))
        return self

    def uninstall(self):
        for cls, n, f in self.saved:
            setattr(cls, n, f)


def run_iboot(ctx, case):
    from elexmodel.models.BootstrapElectionModel import BootstrapElectionModel as BEM

    B, NT, NTR = case["B"], case["n_test"], 2
    L = LeafStubs(ctx).install()
    try:
        m = BEM({"features": ["baseline_normalized_margin"], "B": B, "lambda_": 1.0})

        def frame(n, tag, rep):
            rows = {"postal_code": ["AA"] * n, "geographic_unit_fips": ["%s%d" % (tag, i) for i in range(n)],
                    "county_classification": ["k1"] * n, "baseline_normalized_margin": [0.1 * (i + 1) for i in range(n)],
                    "reporting": [rep] * n, "unit_category": ["expected"] * n}
            d = pd.DataFrame(rows)
            d["baseline_weights"] = _col([ctx.real("%sw_%d" % (tag, i), 1, 10 ** 6) for i in range(n)])
            d["results_normalized_margin"] = _col([ctx.real("%snm_%d" % (tag, i), -1, 1) for i in range(n)])
            d["turnout_factor"] = _col([ctx.real("%stf_%d" % (tag, i), 0, 100) for i in range(n)])
            d["percent_expected_vote"] = _col([ctx.real("%spev_%d" % (tag, i), 0, 120) for i in range(n)]) if not rep else [100.0] * n
            return d

        rep, non, unx = frame(NTR, "r", 1), frame(NT, "n", 0), frame(0, "u", 0)
        if case.get("presidential"):
            m.correct_from_presidential = True
            non["results_margin"] = _col([ctx.real("n_rm_%d" % i, -10 ** 4, 10 ** 4) for i in range(NT)])
            non["results_weights"] = [5000.0 + i for i in range(NT)]
            m.pres_predictions = pd.DataFrame({
                "geographic_unit_fips": ["n%d" % i for i in range(NT)],
                "pred_margin": _col([ctx.real("p_pm_%d" % i, -10 ** 4, 10 ** 4) for i in range(NT)]),
                "pred_turnout": [8000.0 + i for i in range(NT)],
                "results_margin": _col([ctx.real("p_rm_%d" % i, -10 ** 4, 10 ** 4) for i in range(NT)]),
                "results_weights": [6000.0 + i for i in range(NT)],
                "baseline_normalized_margin": [0.05] * NT})
        m.compute_bootstrap_errors(rep, non, unx)
    finally:
        L.uninstall()
    obl = []
    for i in range(NT):
        for b in range(B):
            e1, e2, e3, e4 = m.errors_B_1[i, b], m.errors_B_2[i, b], m.errors_B_3[i, b], m.errors_B_4[i, b]
            for nm, e in (("1", e1), ("2", e2), ("3", e3), ("4", e4)):
                if sym.is_special(e):
                    obl.append(("errors_B_%s[%d,%d] finite" % (nm, i, b), False))
            if any(sym.is_special(e) for e in (e1, e2, e3, e4)):
                continue
            obl.append(("I_boot: turnout draws >= 0 [%d,%d]" % (i, b), AND(GE(e3, 0), GE(e4, 0))))
            obl.append(("I_boot: |margin draw| <= turnout draw [%d,%d]" % (i, b),
                        AND(LE(e1, e3), LE(-e1, e3), LE(e2, e4), LE(-e2, e4))))
        z, yz = m.weighted_z_test_pred[i, 0], m.weighted_yz_test_pred[i, 0]
        obl.append(("I_boot: point turnout >= 0 and |point margin| <= point turnout [%d]" % i, AND(GE(z, 0), LE(yz, z), LE(-yz, z))))
    return obl, {"e3": m.errors_B_3, "z": m.weighted_z_test_pred}


def _col(vals):
    a = np.empty(len(vals), dtype=object)
    a[:] = vals
    if not any(isinstance(v, Sym) for v in vals):
        return a.astype(float)
    return a


# ------------------------------------------------------------------------------------------------ intervals
def run_intervals(ctx, case):
    r = BS.run_bs_client(ctx, case)
    res, sc = r.res, r.sc
    obl = []
    ud = res["unit_data"]
    a1, a2 = sorted(case["alphas"])
    kinds = {u.fips: u.kind for u in sc.units}
    for _, row in ud.iterrows():
        f = row["geographic_unit_fips"]
        for a in (a1, a2):
            lo, hi = row["lower_%s_margin" % a], row["upper_%s_margin" % a]
            obl.append(("unit %s: lower <= upper at %s" % (f, a), LE(lo, hi)))
            if kinds[f] != "non":
                obl.append(("unit %s (reporting / unexpected): prediction and both bounds = counted margin at %s" % (f, a),
                            AND(AEQ(lo, row["results_margin"]), AEQ(hi, row["results_margin"]), AEQ(row["pred_margin"], row["results_margin"]))
                            if any(isinstance(x, Sym) for x in (lo, hi, row["results_margin"], row["pred_margin"]))
                            else (AEQ(lo, row["results_margin"]) and AEQ(hi, row["results_margin"]) and AEQ(row["pred_margin"], row["results_margin"]))))
        obl.append(("unit %s: %s-interval inside %s-interval" % (f, a1, a2),
                    AND(LE(row["lower_%s_margin" % a2], row["lower_%s_margin" % a1]), GE(row["upper_%s_margin" % a2], row["upper_%s_margin" % a1]))))
        obl.append(("unit %s: predicted turnout >= 0" % f, GE(row["pred_turnout"], 0)))
    for table in c01.LEVELS:
        if table not in res:
            continue
        tab = res[table]
        lcols = c01.level_cols(case, table)
        for i in range(len(tab)):
            g = "/".join(str(tab[c].iloc[i]) for c in lcols)
            pm = tab["pred_margin"].iloc[i]
            if sym.is_special(pm):
                obl.append(("%s %s: predicted margin is a number" % (table, g), False))
                continue
            obl.append(("%s %s: predicted margin within [-1, 1]" % (table, g), AND(GE(pm, -1), LE(pm, 1))))
            obl.append(("%s %s: predicted turnout >= 0" % (table, g), GE(tab["pred_turnout"].iloc[i], 0)))
            for a in (a1, a2):
                lo, hi = tab["lower_%s_margin" % a].iloc[i], tab["upper_%s_margin" % a].iloc[i]
                obl.append(("%s %s: lower < prediction < upper at %s" % (table, g, a), AND(LT(lo, pm), LT(pm, hi))))
            obl.append(("%s %s: %s-interval inside %s-interval" % (table, g, a1, a2),
                        AND(LE(tab["lower_%s_margin" % a2].iloc[i], tab["lower_%s_margin" % a1].iloc[i]),
                            GE(tab["upper_%s_margin" % a2].iloc[i], tab["upper_%s_margin" % a1].iloc[i]))))
    return obl, P.tables_out(res)


def signature(case, entry):
    if case["kind"] == "ranks":
        return "ranks|%s|B %s|%s|%s" % (case["region"], "odd" if case["B"] % 2 else "even", entry["kind"], entry["name"].split(": ", 1)[-1])
    if case["kind"] == "intervals":
        nunexp = sum(1 for u in case["units"] if u["kind"] == "unexp")
        return "intervals|%s|unexpected=%d|%s|%s" % ("+".join(case["aggregates"]), nunexp, entry["kind"], entry["name"])
    return "%s|%s|%s" % (case["kind"], entry["kind"], entry["name"])
