"""C03 - counted votes are a floor; reported units are final (NP, GA; BS pass-through clause in c06/c01)."""
import numpy as np
import pandas as pd

from engine import sym, stubs
from engine.sym import AND, GE, AEQ, is_int_valued, Sym
import scenario as S

ID = "C03"
ABSTRACT_MUL = False
ENCODED = [
    "elexmodel.client:ModelClient.get_estimates",
    "elexmodel.handlers.data.CombinedData:CombinedDataHandler.__init__",
    "elexmodel.handlers.data.CombinedData:CombinedDataHandler.get_units",
    "elexmodel.models.ConformalElectionModel:ConformalElectionModel.get_unit_predictions",
    "elexmodel.models.ConformalElectionModel:ConformalElectionModel.get_unit_prediction_interval_bounds",
    "elexmodel.models.NonparametricElectionModel:NonparametricElectionModel.get_unit_prediction_intervals",
    "elexmodel.models.NonparametricElectionModel:NonparametricElectionModel.get_aggregate_prediction_intervals",
    "elexmodel.models.GaussianElectionModel:GaussianElectionModel.get_unit_prediction_intervals",
    "elexmodel.models.GaussianElectionModel:GaussianElectionModel.get_aggregate_prediction_intervals",
    "elexmodel.distributions.GaussianModel:GaussianModel.fit",
    "elexmodel.models.BaseElectionModel:BaseElectionModel.get_aggregate_predictions",
    "elexmodel.handlers.data.ModelResults:ModelResultsHandler.add_unit_intervals",
    "elexmodel.handlers.data.ModelResults:ModelResultsHandler.process_final_results",
]
STUBS = ["QuantileRegressionSolver.fit -> coefficients are uninterpreted functions of the bound arguments (arbitrary reals)",
         "scipy.stats.bootstrap (boot_sigma) -> arbitrary positive value",
         "S3 -> recording fake"]
ASSUMES = ["vote counts and baselines are integers >= 0 (baseline turnout >= 1 for baseline units)",
           "pinned reporting units are eligible (0.5*baseline < results < 2*baseline) and at 100% expected vote",
           "float64 arithmetic modelled as exact real arithmetic"]
OUTSIDE = ["more units than the bound", "outlier-model exclusions (need > 20 reporting units)",
           "numerical behaviour of the LP solver / scipy bootstrap (stubbed as arbitrary)"]
BOUNDS = {"quick": "NP: 4 reporting + <=2 nonreporting + <=1 unexpected, alphas {0.5}; GA: 7 reporting + <=2 nonreporting + "
                   "<=1 unexpected, alphas {0.7}; 1 state, <=2 counties groups; estimand turnout; a not yet reporting zero-baseline unit in its own county; incl. the all-reporting feed (0 nonreporting units, with and without an unexpected unit)",
          "thorough": "adds: 2 alphas, 2 estimands (dem, turnout), 3 nonreporting units"}
OPTS = {"quick": dict(case_timeout_s=900, solver_timeout_ms=30000), "thorough": dict(case_timeout_s=3000, solver_timeout_ms=60000)}


def cases(tier):
    out = []
    for pi, nrep, alphas in (("nonparametric", 4, [0.5]), ("gaussian", 7, [0.7])):
        for nnon in ((0, 1, 2) if tier == "quick" else (0, 1, 2, 3)):
            for nunexp in (0, 1):
                for layout in ("one_county", "two_counties"):
                    if nnon == 0 and layout == "two_counties" and nunexp == 0:
                        continue
                    out.append(dict(name="%s_n%d_u%d_%s" % (pi, nnon, nunexp, layout), pi=pi, nrep=nrep, nnon=nnon,
                                    nunexp=nunexp, layout=layout, alphas=alphas, estimands=["turnout"], weight=nnon * 2 + nrep))
    # a zero-baseline unit that has not reported yet (0 or few votes, own county): not modelled, hence final
    for pi, nrep, alphas in (("nonparametric", 4, [0.5]), ("gaussian", 7, [0.7])):
        out.append(dict(name="%s_n1_zero_nonreporting" % pi, pi=pi, nrep=nrep, nnon=1, nunexp=0, nzero=1, layout="two_counties",
                        alphas=alphas, estimands=["turnout"], weight=nrep + 3))
    if tier == "thorough":
        out.append(dict(name="np_two_alphas", pi="nonparametric", nrep=5, nnon=2, nunexp=1, layout="two_counties",
                        alphas=[0.5, 0.6], estimands=["turnout"], weight=50))
        out.append(dict(name="np_two_estimands", pi="nonparametric", nrep=4, nnon=2, nunexp=1, layout="two_counties",
                        alphas=[0.5], estimands=["dem", "turnout"], weight=40))
        out.append(dict(name="ga_two_estimands", pi="gaussian", nrep=7, nnon=1, nunexp=1, layout="two_counties",
                        alphas=[0.7], estimands=["dem", "turnout"], weight=40))
    return out


def build(ctx, case):
    sc = S.Scenario(ctx, estimands=case["estimands"], integer=True)
    two = case["layout"] == "two_counties"
    prof = S.profile(case.get("profile", "generic"), case["nrep"] + case["nnon"])
    for i in range(case["nrep"]):
        sc.add(S.Unit("r%d" % i, county="c1" if (not two or i % 2 == 0) else "c2", kind="rep", base=prof[i]))
    for i in range(case["nnon"]):
        sc.add(S.Unit("n%d" % i, county="c1" if (not two or i % 2 == 1) else "c2", kind="non",
                      base=prof[case["nrep"] + i]))
    for i in range(case.get("nzero", 0)):
        sc.add(S.Unit("z%d" % i, county="c3", kind="zero", pev=40, zero_baseline=True))
    for i in range(case["nunexp"]):
        # county parsed from the id (split on "_")
        sc.add(S.Unit(("c2_x%d" if two else "c1_x%d") % i, kind="unexp", in_baseline=False))
    return sc


def run(ctx, case):
    from elexmodel.client import ModelClient

    sc = build(ctx, case)
    pre, cur = sc.frames()
    config = S.make_config("G", sc.states())
    qr = stubs.QRStub(mode="uf").install()
    bs = stubs.BootSigmaStub().install()
    s3 = stubs.FakeS3().install()
    try:
        mc = ModelClient()
        res = mc.get_estimates(cur, S.ELECTION, "G", case["estimands"], prediction_intervals=case["alphas"],
                               percent_reporting_threshold=100, geographic_unit_type="county", raw_config=config,
                               preprocessed_data=pre, pi_method=case["pi"], save_output=[],
                               aggregates=["postal_code", "county_fips", "unit"],
                               model_parameters={"fit_margin_outlier_model": False, "fit_turnout_outlier_model": False})
    finally:
        qr.uninstall()
        bs.uninstall()
        s3.uninstall()
    obl = []
    ud, sd, cd = res["unit_data"], res["state_data"], res["county_data"]
    # expected categories per unit from the scenario
    kinds = {u.fips: u.kind for u in sc.units}
    for est in case["estimands"]:
        for _, r in ud.iterrows():
            f = r["geographic_unit_fips"]
            rs = r["results_%s" % est]
            cols = ["pred_%s" % est] + ["%s_%s_%s" % (b, a, est) for a in case["alphas"] for b in ("lower", "upper")]
            for c in cols:
                v = r[c]
                if sym.is_special(v):
                    obl.append(("unit %s %s finite" % (f, c), False))
                    continue
                obl.append(("unit %s %s >= counted" % (f, c), GE(v, rs)))
                obl.append(("unit %s %s whole" % (f, c), whole(v)))
                if kinds[f] != "non":
                    obl.append(("unit %s %s == counted (final)" % (f, c), AEQ(v, rs)))
        for tname, tab, key in (("state", sd, "postal_code"), ("county", cd, "county_fips")):
            for _, r in tab.iterrows():
                g = r[key]
                rs = r["results_%s" % est]
                members = [u for u in sc.units if (u.state if key == "postal_code" else county_of(u)) == g]
                has_non = any(u.kind == "non" for u in members)
                cols = ["pred_%s" % est] + ["%s_%s_%s" % (b, a, est) for a in case["alphas"] for b in ("lower", "upper")]
                for c in cols:
                    v = r[c]
                    if sym.is_special(v):
                        obl.append(("%s %s %s finite" % (tname, g, c), False))
                        continue
                    obl.append(("%s %s %s >= counted" % (tname, g, c), GE(v, rs)))
                    obl.append(("%s %s %s whole" % (tname, g, c), whole(v)))
                    if not has_non:
                        obl.append(("%s %s %s == counted (no outstanding units)" % (tname, g, c), AEQ(v, rs)))
    outputs = {"unit": numeric_part(ud), "state": numeric_part(sd), "county": numeric_part(cd)}
    return obl, outputs


def county_of(u):
    if u.in_baseline:
        return u.county
    return u.fips.split("_")[0]


def whole(v):
    if isinstance(v, Sym):
        return is_int_valued(v)
    return bool(float(v) == round(float(v)))


def numeric_part(df):
    keep = [c for c in df.columns if c.startswith(("pred_", "lower_", "upper_", "results_", "reporting"))]
    return df[["geographic_unit_fips"] + keep] if "geographic_unit_fips" in df.columns else df[keep]


def signature(case, entry):
    nm = entry["name"]
    nm = nm.replace(case["name"], "")
    return "%s|%s|%s" % (case["pi"], entry["kind"], nm)
