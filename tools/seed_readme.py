#!/usr/bin/env python3
"""builds seeded/<id>_<k>/meta.json and seeded/README.md from the verification records and the check logs"""
import json, os, re, glob
V = os.path.dirname(os.path.dirname(os.path.abspath(__file__)))
props = {json.loads(l)["id"]: json.loads(l) for l in open(os.path.join(V, "properties.jsonl"))}
NOT_CAUGHT = {}
rows = []
for d in sorted(glob.glob(os.path.join(V, "seeded", "C*_*"))):
    sid = os.path.basename(d)
    pid, k = sid.split("_")
    ver = json.load(open(os.path.join(d, "verification.json"))) if os.path.exists(os.path.join(d, "verification.json")) else {}
    log = open(os.path.join(d, "check.log")).read() if os.path.exists(os.path.join(d, "check.log")) else ""
    notes = open(os.path.join(d, "notes.md")).read() if os.path.exists(os.path.join(d, "notes.md")) else ""
    caught_by = []
    sigs = []
    cur = None
    for line in log.splitlines():
        m = re.match(r"### ./check (C\d+)", line)
        if m:
            cur = m.group(1)
        if line.startswith("VIOLATION") and cur and cur not in caught_by:
            caught_by.append(cur)
        if line.startswith("  ") and cur:
            sigs.append("%s: %s" % (cur, line.strip()))
    first_para = ""
    for para in re.split(r"\n\s*\n", notes):
        p = para.strip()
        if p and not p.startswith("#"):
            first_para = " ".join(p.split())[:600]
            break
    meta = dict(seed=sid, property=pid, property_title=props[pid]["title"], written_by="independent sub-agent (only the property text and a scratch worktree)",
                what_and_needs=first_para,
                confirmed=dict(worktree="scratch worktree of /repo HEAD (with the fix: commits)", patch_applies=ver.get("apply"),
                               test_suite=ver.get("tests"), demo_exit_clean_tree=ver.get("demo_clean_exit"),
                               demo_exit_changed_tree=ver.get("demo_patched_exit"), command="tools/verify_seed.sh %s %s" % (pid, k)),
                checks_run=re.findall(r"### (./check C\d+ --tier quick)", log), caught_by=caught_by, violation_lines=sigs[:4],
                rebased=os.path.exists(os.path.join(d, "patch_original_pinned_commit.diff")))
    json.dump(meta, open(os.path.join(d, "meta.json"), "w"), indent=1)
    rows.append(meta)
with open(os.path.join(V, "seeded", "README.md"), "w") as f:
    f.write("# Seeded property-breaking changes\n\nEach directory holds `patch.diff` (applies to /repo HEAD), `demo.py` (the author's demonstration: exit 0 on the unchanged tree, non-zero with the change), `notes.md` (author's notes), `verification.json` (my confirmation in a scratch worktree: patch applies, the full suite still gives 156 passed / the 2 baseline failures, demo passes without and fails with the change), `check.log` (output of the property's quick check with the change applied to /repo, reverted afterwards) and `meta.json`.\n\nNone of these changes is committed to /repo.\n\n| seed | caught by | first violation line / reason not caught |\n|---|---|---|\n")
    for m in rows:
        why = m["violation_lines"][0] if m["violation_lines"] else NOT_CAUGHT.get(m["seed"], "NOT CAUGHT")
        f.write("| %s | %s | %s |\n" % (m["seed"], ", ".join(m["caught_by"]) or "-", why.replace("|", "/")))
print(len(rows), "seeds;", sum(1 for m in rows if m["caught_by"]), "caught")
