#!/usr/bin/env python3
"""regenerates MANIFEST.json from the table below (keeps it schema-valid)."""
import json, os
V = os.path.dirname(os.path.dirname(os.path.abspath(__file__)))
PDSE = ("solver-based bounded checking: the repository's real functions are executed on symbolic inputs "
        "(z3 terms inside real pandas/numpy containers); every feasible path is enumerated and every obligation is an SMT "
        "query over all values of the symbolic inputs; candidates are replayed on the real code before being reported")
NOTE = ("trusted base: z3 5.1 (cvc5 1.0 for QF_FP), the Sym proxies and numpy adaptors (differential self-test at start-up, "
        "shadow replay of one float model per path on the unpatched code), the stubs listed in the evidence file; "
        "float64 modelled as exact reals except where stated; bounds as listed in the evidence file")
CHECKS = {
 "C01": ("dynamic symbolic execution of the real pipeline + SMT (z3)", "bounded: every shape class of the statement with symbolic counts; unsat on every path = conserved for all values within the bound", "5"),
 "C02": ("dynamic symbolic execution of the real pipeline + SMT (z3)", "bounded: per-group sum identities proved for all values on every path", "5"),
 "C03": ("dynamic symbolic execution of the real pipeline + SMT (z3, mixed int/real)", "bounded: floor / finality / whole-number obligations for arbitrary regression outputs", "5"),
 "C04": ("dynamic symbolic execution of the real get_unit_prediction_intervals (split, population correction, np.quantile semantics) on symbolic residuals/weights (z3); leave-one-out counting over an exchangeable pool for the probabilistic clause", "bounded: n_cal<=4, alpha in {0.5,0.6}; the last step to a probability statement is pen-and-paper", "5"),
 "C05": ("dynamic symbolic execution + exact LP-optimality contract for intercept-only quantile regression (z3)", "bounded: weighted-median identity and prediction formula for all counts", "5"),
 "C09": ("dynamic symbolic execution of CombinedDataHandler.get_units + SMT (z3)", "bounded: all structural options of a unit x all values incl. thresholds at limits", "5"),
 "C10": ("self-composition (two symbolic runs in one path) + SMT with uninterpreted regression leaves", "bounded 2-safety: outputs equal as functions of inputs that exclude the perturbed count", "5"),
 "C11": ("self-composition (feed without/with the extra unit) + SMT", "bounded 2-safety: every cell either unchanged or shifted by exactly the added votes", "5"),
 "C12": ("self-composition over call histories with an explicit entropy model + SMT", "bounded: first and last result of a history equal for all values; unseeded randomness is a fresh symbol", "5"),
 "C13": ("self-composition over request pairs + SMT", "bounded 2-safety over request subsets / orders", "5"),
 "C14": ("bit-precise QF_FP (cvc5) over all doubles alpha for enumerated n, executed through the real split arithmetic; plus symbolic gate runs", "bounded: every double alpha in (0,1) x listed n; gate end-to-end", "5"),
 "C06": ("bit-precise QF_FP (cvc5) for the rank arithmetic over all doubles alpha; dynamic symbolic execution (z3) of compute_bootstrap_errors with stubbed leaves (invariant) and of the interval functions from arbitrary draws satisfying the invariant (assume/guarantee)", "bounded: all doubles alpha x listed B; B<=3 draws, <=3 outstanding units for the value-level clauses", "5"),
 "C07": ("dynamic symbolic execution of the real client + bootstrap aggregate functions from arbitrary draws (z3); call/stop states enumerated as cases", "bounded: 2 contests x all call/stop states, every sign of prediction and bounds", "5"),
 "C08": ("dynamic symbolic execution of get_national_summary_estimates after the real aggregate loop (z3); aggregate lists/orders enumerated; sigmoid mode through a sound piecewise-linear envelope of expit (non-strict monotone, sign-linked)", "bounded: 2 contests, B=2, all aggregate lists and orders over 3 levels", "5"),
 "C15": ("dynamic symbolic execution of GaussianElectionModel.get_aggregate_prediction_intervals + GaussianModel.fit with set-labelled calibration statistics (z3)", "bounded: calibration counts from {0,1,9,10,11} per group, <=2 states, 2 levels", "5"),
 "C16": ("explorer-enumerated categorical structure + SMT over the continuous features (z3) on the real Featurizer", "bounded exhaustive over level assignments (<=3^5), symbolic feature values", "5"),
 "C17": ("dynamic symbolic execution of compute_versioned_margin_estimate on symbolic version histories (z3, nonlinear reals)", "bounded: V<=3 versions, latest percent <=3", "5"),
 "C18": ("explorer-enumerated option subsets on the real client with recording S3 fake (z3 explorer) + CrossHair (z3) on the key builders with symbolic id strings", "bounded: all 16 option subsets x env x estimator x gate outcome; ids <=2-3 chars", "5"),
 "C19": ("CrossHair (z3) on list_versions with symbolic timestamp lists / page sizes / windows; explorer-enumerated retrieval (sampling step, failing subsets, window) on the real get / get_versioned_results", "bounded: <=5 versions, page<=3, step<=3, all failing subsets", "5"),
 "C20": ("fault injection as a case parameter + self-composition with the fault-free run (tables and the argument lists of every fit) + SMT", "bounded: every position of the failing fit x 2 failure kinds", "5"),
}
def main():
    checks = []
    for pid in sorted(CHECKS):
        tech, text, ref = CHECKS[pid]
        checks.append(dict(property_id=pid, quick_cmd="./check %s --tier quick" % pid, thorough_cmd="./check %s --tier thorough" % pid,
                           evidence_file="/verif/evidence/%s.json" % pid, replay_cmd_template="./check %s --replay {path}" % pid,
                           engine="PDSE", level_claimed=dict(category="model_checking", text=PDSE + ". " + text, design_ref="§" + ref),
                           level_note=NOTE, technique=tech))
    props = [json.loads(l)["id"] for l in open(os.path.join(V, "properties.jsonl"))]
    na_path = os.path.join(V, "tools", "not_applicable.json")
    na = json.load(open(na_path)) if os.path.exists(na_path) else {}
    not_app = [dict(property_id=p, reason=na.get(p, "check not built yet in this session (harness pending); see DESIGN.md §5")) for p in props if p not in CHECKS]
    m = dict(version=1, setup_cmd="./bootstrap.sh",
             hooks=dict(guard="ELEXMODEL_VERIF", enable="no source hooks are needed: checks patch library entry points (elexsolver, scipy.stats.bootstrap, boto3 clients) inside their own process",
                        baseline_off_cmd="cd /repo && /venv/bin/python -m pytest -ra -q -p no:cacheprovider --timeout=900 --continue-on-collection-errors",
                        source_commits=[], add_only=True),
             engines=[dict(name="PDSE", path="engine/", serves_properties=sorted(CHECKS), kind_free_text="pandas-in-the-loop dynamic symbolic execution with z3 (reals/ints), cvc5 for bit-precise floats, CrossHair for string/list inputs")],
             checks=checks, not_applicable=not_app,
             notes="exit codes of ./check: 0 held, 1 VIOLATION (replay-confirmed), 2 inconclusive (never reported as success). Genuine defects repaired by fix: commits are listed in known_findings.json")
    json.dump(m, open(os.path.join(V, "MANIFEST.json"), "w"), indent=1)
    import jsonschema
    jsonschema.validate(m, json.load(open(os.path.join(V, "schemas", "MANIFEST.schema.json"))))
    print("MANIFEST ok:", len(checks), "checks,", len(not_app), "not applicable")
main()
