#!/bin/bash
# third round of seeds (round-3 sub-agents): seeded/<id>_3, seeded/<id>_4
cd /verif
for id in C01 C06 C07 C08 C11 C12 C13 C18; do for k in 1 2; do
  S=/tmp/seed_out3/$id/$k; n=$((k+2)); D=/verif/seeded/${id}_$n; mkdir -p $D
  cp $S/patch.diff $D/patch.diff; cp $S/demo.py $D/demo.py; cp $S/notes.md $D/notes.md 2>/dev/null
  SEED_BASE=/tmp/seed_out3 SEED_TAG=_r3 tools/verify_seed.sh $id $k > /dev/null 2>&1
  cp /tmp/seed_verify/${id}_${k}_r3.json $D/verification.json 2>/dev/null
  checks="$id"; [ "$id $k" = "C01 1" ] && checks="C01 C12"; [ "$id $k" = "C11 2" ] && checks="C11 C12"
  : > $D/check.log
  for c in $checks; do echo "### ./check $c --tier quick (seed applied to /repo)" >> $D/check.log; SEED_LINES=8 tools/try_seed.sh $D/patch.diff $c >> $D/check.log 2>&1; done
  echo "$id $n done"; done; done
