#!/bin/bash
# tools/try_seed.sh <patch.diff> <Cxx> [extra check args]  -- apply a seeded change to /repo, run the check, always revert
P="$1"; C="$2"; shift 2
cd /repo || exit 9
if [ -n "$(git status --porcelain --untracked-files=no)" ]; then echo "repo not clean"; exit 9; fi
trap 'git -C /repo checkout -- . ; git -C /repo clean -fdq src >/dev/null 2>&1' EXIT
git apply "$P" || { echo "PATCH DOES NOT APPLY"; exit 8; }
cd /verif && timeout ${SEED_TIMEOUT:-1500} ./check "$C" --no-evidence "$@" 2>&1 | grep -E "VIOLATION|KNOWN|exit=|INCONCL|^  " | head -${SEED_LINES:-6} | cut -c1-300
