#!/bin/bash
# fourth round of seeds (one more change for each of the twelve properties that had two): seeded/<id>_3.
# Checks run against a scratch worktree with the change applied (tools/try_seed_wt.sh), all in parallel.
cd /verif
for id in C02 C03 C04 C05 C09 C10 C14 C15 C16 C17 C19 C20; do
  S=/tmp/seed_out/$id/3; D=/verif/seeded/${id}_3; mkdir -p $D
  cp $S/patch.diff $D/patch.diff; cp $S/demo.py $D/demo.py; cp $S/notes.md $D/notes.md 2>/dev/null
  cp /tmp/seed_verify/${id}_3.json $D/verification.json 2>/dev/null
  ( echo "### ./check $id --tier quick (seed applied to a scratch worktree of /repo HEAD, VERIF_REPO)" > $D/check.log; SEED_TIMEOUT=2400 SEED_LINES=8 tools/try_seed_wt.sh $D/patch.diff $id ${id}_r4 >> $D/check.log 2>&1; echo "$id done" ) &
done
wait
