#!/bin/bash
# tools/verify_seed.sh <Cxx> <k> [patch override]: confirm a seeded change in a scratch worktree of /repo HEAD:
#   demo passes on the clean tree, patch applies, full test suite still passes with it, demo fails with it.
ID=$1; K=$2; SRC=${SEED_BASE:-/tmp/seed_out}/$ID/$K; PATCH=${3:-$SRC/patch.diff}
WT=/tmp/wt_verify_${ID}_$K; OUT=/tmp/seed_verify/${ID}_$K${SEED_TAG}.json
git -C /repo worktree remove --force $WT >/dev/null 2>&1; git -C /repo worktree add -q --detach $WT HEAD || exit 9
cd $WT
run_demo() { PYTHONPATH=$WT/src timeout 900 /venv/bin/python $SRC/demo.py > $1 2>&1; echo $?; }
D0=$(run_demo /tmp/seed_verify/${ID}_$K.clean.log)
if git apply $PATCH 2>/tmp/seed_verify/${ID}_$K.apply.log; then APPLY=ok; else APPLY=fail; fi
T=""; D1=""
if [ $APPLY = ok ]; then
  PYTHONPATH=$WT/src timeout 1500 /venv/bin/python -m pytest -q -p no:cacheprovider --timeout=900 > /tmp/seed_verify/${ID}_$K.tests.log 2>&1
  T=$(tail -1 /tmp/seed_verify/${ID}_$K.tests.log)
  FAILED=$(grep '^FAILED' /tmp/seed_verify/${ID}_$K.tests.log | sed 's/ - .*//' | tr '\n' ';')
  D1=$(run_demo /tmp/seed_verify/${ID}_$K.patched.log)
fi
python3 - <<PY
import json
json.dump(dict(id="$ID", k="$K", patch="$PATCH", apply="$APPLY", demo_clean_exit="$D0", demo_patched_exit="$D1", tests="""$T""", failed="""$FAILED"""), open("$OUT","w"), indent=1)
PY
cd /; git -C /repo worktree remove --force $WT
cat $OUT | tr '\n' ' '; echo
