#!/bin/bash
# tools/try_seed_wt.sh <patch.diff> <Cxx> <tag> [extra check args] -- run a check against a scratch worktree of /repo HEAD with the
# seeded change applied (VERIF_REPO), so that several seeds can be tried in parallel without touching /repo; the worktree is removed.
P="$1"; C="$2"; TAG="$3"; shift 3
WT=/tmp/wt_chk_$TAG
git -C /repo worktree remove --force $WT >/dev/null 2>&1
git -C /repo worktree add -q --detach $WT HEAD || exit 9
trap 'git -C /repo worktree remove --force '$WT' >/dev/null 2>&1' EXIT
git -C $WT apply "$P" || { echo "PATCH DOES NOT APPLY"; exit 8; }
cd /verif && VERIF_REPO=$WT timeout ${SEED_TIMEOUT:-1500} ./check "$C" --no-evidence "$@" 2>&1 | grep -E "VIOLATION|KNOWN|exit=|INCONCL|^  " | head -${SEED_LINES:-8} | cut -c1-300
