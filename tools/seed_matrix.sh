#!/bin/bash
# tools/seed_matrix.sh : copy every verified seed into /verif/seeded/<id>_<k>/ and run the property's quick check against it
cd /verif
for id in C01 C02 C03 C04 C05 C06 C07 C08 C09 C10 C11 C12 C13 C14 C15 C16 C17 C18 C19 C20; do for k in 1 2; do
  S=/tmp/seed_out/$id/$k; D=/verif/seeded/${id}_$k; mkdir -p $D
  P=$S/patch.diff; [ -f $S/patch_rebased.diff ] && P=$S/patch_rebased.diff
  cp $P $D/patch.diff; cp $S/demo.py $D/demo.py; cp $S/notes.md $D/notes.md 2>/dev/null
  [ -f $S/patch_rebased.diff ] && cp $S/patch.diff $D/patch_original_pinned_commit.diff
  cp /tmp/seed_verify/${id}_$k.json $D/verification.json 2>/dev/null
  checks="$id"; [ "$id $k" = "C11 2" ] && checks="C11 C06"
  : > $D/check.log
  for c in $checks; do echo "### ./check $c --tier quick (seed applied to /repo)" >> $D/check.log; SEED_LINES=8 tools/try_seed.sh $D/patch.diff $c >> $D/check.log 2>&1; done
  echo "$id $k done"; done; done
