"""CrossHair (symbolic execution of Python with z3) as a sub-engine for targets whose inputs are
strings / lists / ints rather than tables.  One `crosshair check` process per target function, in parallel;
only 'Confirmed over all paths' counts as a pass; reachability twins (*_reach) must be refuted; every
counterexample is replayed by calling the target concretely and evaluating its post_<name> oracle.
"""
import ast
import importlib
import os
import re
import subprocess
import sys
import time
from concurrent.futures import ThreadPoolExecutor

VERIF = os.path.dirname(os.path.dirname(os.path.abspath(__file__)))


def targets_of(path):
    tree = ast.parse(open(path).read())
    out = []
    for node in tree.body:
        if isinstance(node, ast.FunctionDef):
            doc = ast.get_docstring(node) or ""
            if "post:" in doc:
                out.append((node.name, node.lineno + 1))
    return out


def run_one(path, name, line, timeout_s):
    t0 = time.time()
    env = dict(os.environ)
    env["PYTHONPATH"] = VERIF + os.pathsep + os.path.join(VERIF, "crosshair_targets") + os.pathsep + env.get("PYTHONPATH", "")
    cmd = [sys.executable, "-m", "crosshair", "check", "--report_all", "--per_condition_timeout", str(timeout_s),
           "%s:%d" % (path, line)]
    try:
        p = subprocess.run(cmd, capture_output=True, text=True, timeout=timeout_s * 2 + 120, env=env, cwd=os.path.dirname(path))
        out = p.stdout + p.stderr
    except subprocess.TimeoutExpired:
        out = "timeout"
    dt = time.time() - t0
    res = dict(name=name, line=line, wall_s=round(dt, 1), raw=out.strip()[-600:])
    if "Confirmed over all paths" in out:
        res["status"] = "confirmed"
    elif re.search(r"error: .* when calling ", out):
        m = re.search(r"error: (.*?) when calling (.*?)(?: \(which returns (.*)\))?$", out, re.M)
        res["status"] = "refuted"
        res["message"] = m.group(1)
        res["call"] = m.group(2).strip()
        res["returns"] = m.group(3)
    else:
        res["status"] = "inconclusive"
    return res


def replay(modname, name, call):
    """call the target concretely; True if the counterexample reproduces (oracle false or exception)"""
    sys.path.insert(0, os.path.join(VERIF, "crosshair_targets"))
    mod = importlib.import_module(modname)
    ns = dict(vars(mod))
    import math

    ns.update(nan=math.nan, inf=math.inf)
    try:
        args = eval("(lambda *a, **k: (a, k))" + call[len(name):], ns)
        a, k = args
        ret = getattr(mod, name)(*a, **k)
    except Exception as e:  # the target itself raises: reproduces as a crash
        return True, "raises %s: %s" % (type(e).__name__, str(e)[:200])
    post = getattr(mod, "post_" + name, None)
    if post is None:
        return True, "returns %r" % (ret,)
    try:
        ok = bool(post(*a, ret, **k))
    except Exception as e:
        return True, "oracle raises %s" % type(e).__name__
    return (not ok), "returns %r" % (ret,)


def run_targets(modname, timeout_s=120, jobs=8, only=None):
    path = os.path.join(VERIF, "crosshair_targets", modname + ".py")
    ts = [(n, l) for n, l in targets_of(path) if not only or re.search(only, n)]
    with ThreadPoolExecutor(max_workers=jobs) as ex:
        results = list(ex.map(lambda t: run_one(path, t[0], t[1], timeout_s), ts))
    return results
