"""./check <Cxx> [--tier quick|thorough] [--replay file] [--only regex] [--jobs N]

exit 0: held on everything explored (KNOWN-FINDING lines for listed findings)
exit 1: VIOLATION property=<id> replay=<path>  (replay-confirmed, not a listed finding)
exit 2: inconclusive (solver unknown, exploration not exhausted, non-reproducing candidate, engine error)
"""
import argparse
import importlib
import json
import os
import sys
import time

VERIF = os.path.dirname(os.path.dirname(os.path.abspath(__file__)))


def main():
    ap = argparse.ArgumentParser()
    ap.add_argument("prop")
    ap.add_argument("--tier", default=os.environ.get("VERIF_TIER", "quick"))
    ap.add_argument("--replay")
    ap.add_argument("--only")
    ap.add_argument("--jobs", type=int, default=int(os.environ.get("VERIF_JOBS", "16")))
    ap.add_argument("--no-evidence", action="store_true")
    a = ap.parse_args()
    seed = int(os.environ.get("VERIF_SEED", "0") or 0)
    pid = a.prop.upper()
    modname = "harness.%s" % pid.lower()
    from engine import harness as H

    if a.replay:
        rec = json.load(open(a.replay))
        mod = importlib.import_module(rec.get("module", modname))
        H.prepare(mod)
        r = H.run_concrete(mod, rec["case"], rec["witness"])
        print(json.dumps(dict(outcome=r["outcome"], failed=r["failed"], exc=r["exc"]), indent=1))
        want = rec["violation"]
        bad = (want["name"].split("|")[0] in r["failed"]) or r["outcome"].startswith("exception:")
        print("REPRODUCED" if bad else "NOT REPRODUCED", want["signature"])
        sys.exit(1 if bad else 0)

    mod = importlib.import_module(modname)
    if hasattr(mod, "main"):
        code, ev, lines = mod.main(a.tier, seed, a.jobs, a.only)
    else:
        code, ev, lines = H.run_module(modname, a.tier, seed, jobs=a.jobs, only=a.only)
    for ln in lines:
        print(ln)
    cov = ev["coverage"]
    print("%s tier=%s exit=%d paths=%s queries=%s obligations=%s/%s shadow=%s solver_s=%s wall_s=%s" % (
        pid, a.tier, code, cov.get("states"), cov.get("transitions"), cov.get("discharged"), cov.get("obligations"),
        cov.get("traces_validated_against_impl"), cov.get("solver_seconds"), ev["wall_s"]))
    for s in cov.get("inconclusive", [])[:10]:
        print("INCONCLUSIVE:", s)
    if not a.no_evidence and not a.only:
        import jsonschema

        schema = json.load(open("/root/.vp/EVIDENCE.schema.json")) if os.path.exists("/root/.vp/EVIDENCE.schema.json") else None
        if schema is not None:
            jsonschema.validate(ev, schema)
        os.makedirs(os.path.join(VERIF, "evidence"), exist_ok=True)
        with open(os.path.join(VERIF, "evidence", "%s.json" % pid), "w") as f:
            json.dump(ev, f, indent=1, default=str)
    sys.exit(code)


if __name__ == "__main__":
    main()
