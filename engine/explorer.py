"""Decision-prefix re-execution explorer (dynamic symbolic execution).

A harness is a Python callable ``run(ctx)`` that builds symbolic inputs through
``ctx`` and calls the repository's real functions.  Whenever the code under
test needs the truth value of a symbolic condition, ``ctx.decide`` is called:
inside the recorded prefix the recorded decision is replayed, beyond it both
branches are checked for feasibility with the solver; if both are feasible the
True branch is taken and the False branch is pushed on the work list.  The tree
is finite because all container sizes are concrete; a pass requires that the
tree is exhausted and every obligation is ``unsat``.
"""
import time
import traceback

import z3

from . import sym
from .sym import Abort, Inconclusive, Sym, SymBool, RV


class Ctx:
    def __init__(self, prefix=(), solver_timeout_ms=20000, abstract_mul=False, seed=0, model=None, backend="z3"):
        self.backend = backend
        self.solver = z3.Solver()
        self.solver.set("timeout", solver_timeout_ms)
        self.solver.set("random_seed", seed)
        self.timeout_ms = solver_timeout_ms
        self.prefix = list(prefix)
        self.trace = []  # decisions taken, in order
        self.fork_at = []  # positions (beyond the prefix) where the other branch is feasible too
        self.pc = []  # path condition (list of z3 bools), assumptions included
        self.vars = {}  # name -> z3 const (inputs)
        self.var_order = []
        self.stub_terms = []  # (label, z3 term) outputs of nondeterministic stubs, in call order
        self.choices = {}  # name -> int (explorer-enumerated structure)
        self.model = model  # a model of the current pc (or None = unknown)
        self.abstract_mul = abstract_mul
        self.mul_pairs = {}
        self.sqrt_terms = {}
        self.stats = dict(checks=0, solver_s=0.0, decisions=0, forks=0, unknown_forks=0)
        self.notes = []
        self.uf_count = 0
        self.atoms = []  # decided comparison atoms
        self.exact_axioms = []  # facts dropped by the abstraction, re-added for exact re-checks
        self.rint_args = []  # arguments of round-half-even

    # ----------------------------------------------------------------- inputs
    def _declare(self, name, integer):
        if name in self.vars:
            return self.vars[name]
        v = z3.Int(name) if integer else z3.Real(name)
        self.vars[name] = v
        self.var_order.append(name)
        return v

    def real(self, name, lo=None, hi=None, lo_strict=False, hi_strict=False):
        v = self._declare(name, False)
        self._bounds(v, lo, hi, lo_strict, hi_strict)
        return Sym(v)

    def int(self, name, lo=None, hi=None):
        v = self._declare(name, True)
        self._bounds(v, lo, hi, False, False)
        return Sym(z3.ToReal(v))

    def _bounds(self, v, lo, hi, lo_strict, hi_strict):
        if lo is not None:
            self.assume_t((v > lo) if lo_strict else (v >= lo))
        if hi is not None:
            self.assume_t((v < hi) if hi_strict else (v <= hi))

    def stub_real(self, label):
        """fresh unconstrained real produced by a nondeterministic stub"""
        self.uf_count += 1
        v = z3.Real("stub%d_%s" % (self.uf_count, label))
        self.stub_terms.append((label, v))
        return Sym(v)

    def stub_term(self, label, t):
        """register a stub output that is a term (UF application)"""
        self.stub_terms.append((label, t))
        return Sym(t)

    # ---------------------------------------------------------------- solving
    def _check(self, *extra):
        t0 = time.time()
        r = self.solver.check(*extra)
        self.stats["solver_s"] += time.time() - t0
        self.stats["checks"] += 1
        return r

    def check_fresh(self, extra=()):
        """non-incremental check of pc + extra (lets z3 pick nlsat etc.)"""
        if self.backend == "cvc5":
            return self._cvc5(list(extra))
        t0 = time.time()
        s = z3.Solver()
        s.set("timeout", self.timeout_ms * 3)
        s.add(*self.pc)
        s.add(*extra)
        r = s.check()
        self.stats["solver_s"] += time.time() - t0
        self.stats["checks"] += 1
        return r, (s.model() if r == z3.sat else None)

    def _cvc5(self, extra):
        """discharge pc + extra with the cvc5 binary (QF_FP: bit-blasting in cvc5 is ~20x faster than z3 here)"""
        import os
        import re
        import subprocess
        import tempfile

        t0 = time.time()
        s = z3.Solver()
        s.add(*self.pc)
        s.add(*extra)
        names = [n for n in self.var_order if not n.startswith("choice_")]
        text = "(set-option :produce-models true)\n(set-logic QF_FP)\n" + s.to_smt2()
        if names:
            text += "(get-value (%s))\n" % " ".join(names)
        fd, path = tempfile.mkstemp(suffix=".smt2", prefix="verif_q_")
        try:
            with os.fdopen(fd, "w") as f:
                f.write(text)
            try:
                p = subprocess.run(["cvc5", "--tlimit=%d" % self.timeout_ms, path], capture_output=True, text=True,
                                   timeout=self.timeout_ms / 1000 + 30)
                out = p.stdout
            except subprocess.TimeoutExpired:
                out = "unknown"
        finally:
            os.unlink(path)
        self.stats["solver_s"] += time.time() - t0
        self.stats["checks"] += 1
        self.stats["cvc5"] = self.stats.get("cvc5", 0) + 1
        first = out.strip().splitlines()[0].strip() if out.strip() else "unknown"
        out_wo = out.replace('(error "Cannot get value unless after a SAT or UNKNOWN response.")', "")
        if "(error" in out_wo or first not in ("sat", "unsat"):
            return z3.unknown, None
        if first == "unsat":
            return z3.unsat, None
        vals = {}
        for n, a, b, c in re.findall(r"\((\w+) \(fp #b([01]) #b([01]+) #b([01]+)\)\)", out):
            bits = int(a + b + c, 2)
            vals[n] = z3.fpBVToFP(z3.BitVecVal(bits, 64), z3.Float64())
        return z3.sat, ValModel([(self.vars[n], z3.simplify(v)) for n, v in vals.items() if n in self.vars])

    def feasible(self, cond):
        """(result, model) for pc ∧ cond ; falls back to a fresh solver on unknown."""
        if self.backend == "cvc5":
            return self._cvc5([cond])
        r = self._check(cond)
        if r == z3.sat:
            return r, self.solver.model()
        if r == z3.unknown:
            r2, m = self.check_fresh([cond])
            return r2, m
        return r, None

    def assume_t(self, cond):
        self.solver.add(cond)
        self.pc.append(cond)
        if self.model is not None:
            try:
                if not z3.is_true(self.model.eval(cond, model_completion=True)):
                    self.model = None
            except z3.Z3Exception:
                self.model = None

    def assume(self, cond):
        """harness-level assumption (SymBool / bool)"""
        if isinstance(cond, bool):
            if not cond:
                raise Abort("assumption is false")
            return
        self.assume_t(sym.bterm(cond))

    def decide(self, cond, tag=None):
        cond = z3.simplify(cond)
        if z3.is_true(cond):
            return True
        if z3.is_false(cond):
            return False
        self.stats["decisions"] += 1
        self.atoms.append(cond)
        k = len(self.trace)
        if k < len(self.prefix):
            d = self.prefix[k]
            self.trace.append(d)
            self.assume_t(cond if d else z3.Not(cond))
            return d
        # which branch does the cached model take?
        known = None
        if self.model is not None:
            try:
                v = self.model.eval(cond, model_completion=True)
                if z3.is_true(v):
                    known = True
                elif z3.is_false(v):
                    known = False
            except z3.Z3Exception:
                known = None
        if known is None:
            rt, mt = self.feasible(cond)
            if rt == z3.sat:
                known = True
                self.model = mt
            else:
                rf, mf = self.feasible(z3.Not(cond))
                if rf == z3.sat:
                    if rt == z3.unknown:
                        self.stats["unknown_forks"] += 1
                        self.notes.append("unknown@fork(true) %s" % str(cond)[:120])
                        # explore both: sound over-approximation
                        self.fork_at.append((k, mf))
                        self.trace.append(True)
                        self.assume_t(cond)
                        self.model = None
                        return True
                    self.trace.append(False)
                    self.assume_t(z3.Not(cond))
                    self.model = mf
                    return False
                if rt == z3.unsat and rf == z3.unsat:
                    raise Abort("infeasible path")
                raise Inconclusive("solver unknown on both branches of %s" % str(cond)[:200])
        # `known` branch is feasible (model in hand); test the other one
        other = z3.Not(cond) if known else cond
        ro, mo = self.feasible(other)
        if ro == z3.unknown:
            self.stats["unknown_forks"] += 1
            self.notes.append("unknown@fork %s" % str(cond)[:120])
        if ro in (z3.sat, z3.unknown):
            self.stats["forks"] += 1
            if known:
                self.fork_at.append((k, mo))
                self.trace.append(True)
                self.assume_t(cond)
                return True
            # cached model goes False; take True first only if it is surely feasible
            if ro == z3.sat:
                self.fork_at.append((k, self.model))
                self.trace.append(True)
                self.assume_t(cond)
                self.model = mo
                return True
            # other (=True) branch unknown: take False now, schedule True
            self.fork_at.append((-k - 1, None))
            self.trace.append(False)
            self.assume_t(z3.Not(cond))
            return False
        # other branch infeasible
        self.trace.append(known)
        self.assume_t(cond if known else z3.Not(cond))
        return known

    def choose(self, name, k):
        """explorer-enumerated discrete choice in range(k) (binary decisions on fresh booleans)"""
        if k <= 1:
            self.choices[name] = 0
            return 0
        v = self._declare("choice_" + name, True)
        self.assume_t(z3.And(v >= 0, v < k))
        for i in range(k - 1):
            if self.decide(v == i, tag="choose"):
                self.choices[name] = i
                return i
        self.choices[name] = k - 1
        return k - 1

    def sqrt(self, x):
        """sqrt as a fresh value s with s >= 0 and s*s == x (x >= 0 must hold)."""
        key = x.t.get_id()
        if key in self.sqrt_terms:
            return self.sqrt_terms[key]
        if not self.decide((x >= 0).t, tag="sqrt-domain"):
            return float("nan")
        self.uf_count += 1
        s = z3.Real("sqrt%d" % self.uf_count)
        if self.abstract_mul:
            # over-approximation: any s >= 0 (positive when x is); exact re-check adds s*s == x
            self.exact_axioms.append(s * s == x.t)
            self.assume_t(z3.And(s >= 0, z3.Implies(x.t > 0, s > 0)))
        else:
            self.assume_t(z3.And(s >= 0, s * s == x.t))
        r = Sym(s)
        self.sqrt_terms[key] = r
        return r

    def generic_constraints(self):
        """constraints putting a model in generic position: decided comparisons not at equality, roundings not at ties"""
        out = []
        seen = set()
        self.n_generic_rint = min(len(self.rint_args), 200)
        for a in self.atoms:
            b = a.arg(0) if z3.is_not(a) else a
            if z3.is_le(b) or z3.is_ge(b) or z3.is_lt(b) or z3.is_gt(b):
                if b.get_id() in seen:
                    continue
                seen.add(b.get_id())
                d = b.arg(0) - b.arg(1)
                out.append(z3.Or(d > z3.RealVal("1/1000000"), d < -z3.RealVal("1/1000000")) if d.is_real() else b.arg(0) != b.arg(1))
        for x in self.rint_args:
            fr = x + z3.RealVal("1/2") - z3.ToReal(z3.ToInt(x + z3.RealVal("1/2")))
            out.append(z3.And(fr > z3.RealVal("1/100"), fr < z3.RealVal("99/100")))
        return out

    # ------------------------------------------------------------ obligations
    def prove(self, cond):
        """-> ('unsat'|'sat'|'unknown', model).  unsat = cond holds on this path."""
        if isinstance(cond, (bool,)) or (hasattr(cond, "dtype") and cond.dtype == bool):
            return ("unsat", None) if bool(cond) else ("sat", self.get_model())
        neg = z3.Not(sym.bterm(cond))
        neg = z3.simplify(neg)
        if z3.is_false(neg):
            return "unsat", None
        r, m = self.feasible(neg)
        if r == z3.sat and self.abstract_mul and self.mul_pairs:
            # CEGAR-lite: re-check with exact products
            r, m = self.check_fresh([neg] + self.exact())
        return str(r), m

    def exact(self):
        return [sym._MUL(a, b) == a * b for a, b in self.mul_pairs.values()] + list(self.exact_axioms)

    def get_model(self):
        if self.model is not None:
            return self.model
        r, m = self.feasible(z3.BoolVal(True))
        if r == z3.sat:
            self.model = m
            return m
        return None


class ValModel:
    """model given as variable -> value pairs (from an external solver); eval by substitution"""

    def __init__(self, pairs):
        self.pairs = pairs

    def eval(self, t, model_completion=True):
        return z3.simplify(z3.substitute(t, *self.pairs)) if self.pairs else z3.simplify(t)


class PathResult:
    __slots__ = ("outcome", "trace", "obligations", "failed", "unknown", "exc", "witness", "outputs", "choices", "stats", "notes")


def explore(run, on_path=None, max_paths=20000, deadline=None, solver_timeout_ms=20000, abstract_mul=False, seed=0,
            stop_on_violation=False, backend="z3"):
    """Exhaust the decision tree of ``run``.

    run(ctx) -> (obligations, outputs) where obligations is a list of (name, SymBool|bool).
    on_path(ctx, info) is called for each finished path (shadow replay etc.); info is a dict.
    Returns a dict with totals and the list of candidate violations.
    """
    work = [([], None)]
    tot = dict(paths=0, aborted=0, checks=0, solver_s=0.0, decisions=0, forks=0, unknown_forks=0, obligations=0,
               discharged=0)
    candidates = []  # dicts: kind, name, model-derived witness, trace
    unknowns = []
    crashes = []
    exhausted = True
    samples = []
    while work:
        if tot["paths"] >= max_paths or (deadline is not None and time.time() > deadline):
            exhausted = False
            break
        prefix, pmodel = work.pop()
        ctx = Ctx(prefix, solver_timeout_ms, abstract_mul, seed, pmodel, backend)
        sym.set_cur(ctx)
        info = dict(outcome=None)
        try:
            try:
                obligations, outputs = run(ctx)
                info["outcome"] = "completed"
                info["outputs"] = outputs
                npath_obl = len(obligations)
                tot["obligations"] += npath_obl
                # one query for the conjunction; individual queries only when it is not unsat
                conj = []
                trivially_false = False
                for name, cond in obligations:
                    if isinstance(cond, SymBool):
                        conj.append(cond.t)
                    elif not bool(cond):
                        trivially_false = True
                r_all = "sat"
                if not trivially_false:
                    r_all, _ = ctx.prove(SymBool(z3.And(*conj))) if conj else ("unsat", None)
                if r_all == "unsat":
                    tot["discharged"] += npath_obl
                else:
                    for name, cond in obligations:
                        r, m = ctx.prove(cond)
                        if r == "unsat":
                            tot["discharged"] += 1
                        elif r == "sat":
                            candidates.append(dict(kind="obligation", name=name, witness=make_witness(ctx, m),
                                                   trace=list(ctx.trace)))
                            if stop_on_violation:
                                work = []
                                break
                        else:
                            unknowns.append(dict(name=name, trace=list(ctx.trace)))
                info["n_obligations"] = npath_obl
            except Abort:
                info["outcome"] = "aborted"
                tot["aborted"] += 1
            except Inconclusive as e:
                info["outcome"] = "inconclusive"
                unknowns.append(dict(name="engine: %s" % e, trace=list(ctx.trace)))
            except Exception as e:  # the code under test raised
                info["outcome"] = "exception:" + type(e).__name__
                m = ctx.get_model()
                crashes.append(dict(kind="exception", name=type(e).__name__, message=str(e)[:300],
                                    tb=traceback.format_exc()[-6000:], witness=make_witness(ctx, m) if m is not None else None,
                                    trace=list(ctx.trace)))
            if info["outcome"] != "aborted":
                tot["paths"] += 1
                if on_path is not None and info["outcome"] == "completed":
                    on_path(ctx, info)
                if len(samples) < 3 and info["outcome"] == "completed":
                    m = ctx.get_model()
                    if m is not None:
                        samples.append(dict(decisions=len(ctx.trace), witness=make_witness(ctx, m, brief=True)))
        finally:
            sym.set_cur(None)
        for k in ("checks", "solver_s", "decisions", "forks", "unknown_forks"):
            tot[k] += ctx.stats[k]
        for pos, pm in ctx.fork_at:
            if pos >= 0:
                work.append((ctx.trace[:pos] + [False], pm))
            else:
                p = -pos - 1
                work.append((ctx.trace[:p] + [True], None))
    tot.update(exhausted=exhausted, candidates=candidates, unknowns=unknowns, crashes=crashes, samples=samples,
               pending=len(work))
    return tot


def _val(m, t):
    if z3.is_fp(t):
        from .symfp import fp_value

        return "float:" + float(fp_value(m, t)).hex()
    v = m.eval(t, model_completion=True)
    if z3.is_int_value(v):
        return str(v.as_long())
    if z3.is_rational_value(v):
        return "%s/%s" % (v.numerator_as_long(), v.denominator_as_long()) if v.denominator_as_long() != 1 else str(
            v.numerator_as_long())
    if z3.is_algebraic_value(v):
        return v.approx(20).as_string().rstrip("?")
    return str(v)


def make_witness(ctx, m, brief=False):
    if m is None:
        return None
    w = dict(inputs={}, choices=dict(ctx.choices))
    for name in ctx.var_order:
        if name.startswith("choice_"):
            continue
        w["inputs"][name] = _val(m, ctx.vars[name])
    if not brief:
        w["stubs"] = [(lab, _val(m, t)) for lab, t in ctx.stub_terms]
    return w
