"""Bit-precise IEEE-754 binary64 proxy (z3 Float64, round-nearest-even) for the scalar kernels whose
failures live at rounding boundaries (C14 split arithmetic, C06 rank arithmetic).  The real functions are
executed with a SymFP in place of the float argument; Python's number protocol dispatches to these methods.
"""
import math
import struct

import numpy as np
import z3

from . import sym

F64 = z3.Float64()
RNE = z3.RNE()


def FV(x):
    return z3.FPVal(float(x), F64)


def _next_up(x):
    return math.nextafter(x, math.inf)


_ROUND2 = {}


def round2_table(lo_k=-120, hi_k=120):
    """thresholds t_k = smallest double x with round(x, 2) >= k/100  (CPython's round is monotone non-decreasing).
    Computed once, exactly, from CPython's own round by bisection over the doubles."""
    key = (lo_k, hi_k)
    if key in _ROUND2:
        return _ROUND2[key]
    tab = []
    for k in range(lo_k + 1, hi_k + 1):
        target = round(k / 100, 2)
        a, b = (k - 1) / 100 - 0.006, k / 100 + 0.006  # round(a,2) < target <= round(b,2)
        assert round(a, 2) < target <= round(b, 2), (k, a, b)
        # bisection on the integer representation (monotone for same-sign; handle sign change by float bisection)
        for _ in range(200):
            mid = (a + b) / 2
            if mid == a or mid == b:
                break
            if round(mid, 2) >= target:
                b = mid
            else:
                a = mid
        # a, b adjacent doubles (or equal): walk to be exact
        while round(a, 2) >= target:
            a = math.nextafter(a, -math.inf)
        b = _next_up(a)
        assert round(a, 2) < target <= round(b, 2)
        tab.append((b, target))
    _ROUND2[key] = (round((lo_k) / 100, 2), tab)
    return _ROUND2[key]


def selftest_round2(n=100000, seed=0):
    import random

    rnd = random.Random(seed)
    base, tab = round2_table()
    lo, hi = tab[0][0], tab[-1][0]
    for _ in range(n):
        x = rnd.uniform(-1.1, 1.1) if rnd.random() < 0.7 else round(rnd.uniform(-1.1, 1.1), 2) + rnd.choice(
            [0.005, -0.005, 0.0050000000000001, 0.0049999999999999]) * rnd.choice([1, -1])
        want = round(x, 2)
        got = base
        for t, v in tab:
            if x >= t:
                got = v
            else:
                break
        assert got == want, (x, got, want)
    return n


class SymFP:
    __slots__ = ("t",)

    def __init__(self, t):
        self.t = t

    @staticmethod
    def lift(o):
        if isinstance(o, SymFP):
            return o
        if isinstance(o, (bool, np.bool_)):
            return SymFP(FV(int(o)))
        if isinstance(o, (int, np.integer)):
            if abs(int(o)) > 2 ** 53:
                raise sym.Inconclusive("int too large for exact float conversion")
            return SymFP(FV(int(o)))
        if isinstance(o, (float, np.floating)):
            return SymFP(FV(float(o)))
        return NotImplemented

    def _bin(self, o, f, rev=False):
        o = SymFP.lift(o)
        if o is NotImplemented:
            return o
        a, b = (o.t, self.t) if rev else (self.t, o.t)
        return SymFP(f(RNE, a, b))

    def __add__(self, o):
        return self._bin(o, z3.fpAdd)

    def __radd__(self, o):
        return self._bin(o, z3.fpAdd, True)

    def __sub__(self, o):
        return self._bin(o, z3.fpSub)

    def __rsub__(self, o):
        return self._bin(o, z3.fpSub, True)

    def __mul__(self, o):
        return self._bin(o, z3.fpMul)

    def __rmul__(self, o):
        return self._bin(o, z3.fpMul, True)

    def __truediv__(self, o):
        return self._bin(o, z3.fpDiv)

    def __rtruediv__(self, o):
        return self._bin(o, z3.fpDiv, True)

    def __neg__(self):
        return SymFP(z3.fpNeg(self.t))

    def __pos__(self):
        return self

    def __abs__(self):
        return SymFP(z3.fpAbs(self.t))

    def _cmp(self, o, f):
        o = SymFP.lift(o)
        if o is NotImplemented:
            return o
        return sym.SymBool(f(self.t, o.t))

    def __lt__(self, o):
        return self._cmp(o, z3.fpLT)

    def __le__(self, o):
        return self._cmp(o, z3.fpLEQ)

    def __gt__(self, o):
        return self._cmp(o, z3.fpGT)

    def __ge__(self, o):
        return self._cmp(o, z3.fpGEQ)

    def __eq__(self, o):
        return self._cmp(o, z3.fpEQ)

    def __ne__(self, o):
        return self._cmp(o, z3.fpNEQ)

    def __hash__(self):
        raise TypeError("symbolic float used as a key")

    def __floor__(self):
        return SymFP(z3.fpRoundToIntegral(z3.RTN(), self.t))

    def __ceil__(self):
        return SymFP(z3.fpRoundToIntegral(z3.RTP(), self.t))

    floor = __floor__
    ceil = __ceil__

    def __round__(self, n=None):
        if n is None or n == 0:
            return SymFP(z3.fpRoundToIntegral(z3.RNE(), self.t))
        if n != 2:
            raise sym.Inconclusive("round(x, %r) not modelled" % (n,))
        base, tab = round2_table()
        lo, hi = tab[0][0], tab[-1][0]
        c = sym.cur()
        # outside the table the value is not modelled: make that a path of its own
        if c.decide(z3.Or(z3.fpLT(self.t, FV(lo - 0.01)), z3.fpGT(self.t, FV(hi + 0.005)), z3.fpIsNaN(self.t)),
                    tag="round2-range"):
            raise sym.Inconclusive("round(x, 2) outside the tabulated range")
        r = FV(base)
        for t, v in tab:
            r = z3.If(z3.fpGEQ(self.t, FV(t)), FV(v), r)
        return SymFP(r)

    def __float__(self):
        raise TypeError("symbolic float realised")

    def __int__(self):
        raise TypeError("symbolic float realised to int")

    def __index__(self):
        raise TypeError("symbolic float used as index")

    def __bool__(self):
        return bool(self != 0.0)

    def __repr__(self):
        return "SymFP(%s)" % str(self.t)[:50]


def fp_value(m, t):
    v = m.eval(t, model_completion=True)
    # exact double from the bit pattern
    bv = m.eval(z3.fpToIEEEBV(v), model_completion=True)
    return struct.unpack(">d", bv.as_long().to_bytes(8, "big"))[0]
