"""Running harness modules: symbolic exploration of each case, shadow replay of every
path on the unpatched code with floats, concrete replay of every candidate violation,
known-finding matching, evidence.
"""
import fractions
import hashlib
import importlib
import inspect
import json
import math
import multiprocessing as mp
import os
import re
import sys
import time
import traceback

import numpy as np
import z3

from . import sym, explorer, npmodel
from .sym import Sym, SymBool

VERIF = os.path.dirname(os.path.dirname(os.path.abspath(__file__)))
REPO = os.environ.get("VERIF_REPO", "/repo")


class ReplayMismatch(Exception):
    pass


def _num(s):
    if isinstance(s, (int, float)):
        return s
    s = str(s)
    if s.startswith("float:"):
        return float.fromhex(s[6:])
    if "/" in s:
        return float(fractions.Fraction(s))
    try:
        return int(s)
    except ValueError:
        return float(s)


class CCtx:
    """concrete context: same interface as explorer.Ctx, values come from a witness."""

    concrete = True
    abstract_mul = False

    def __init__(self, witness):
        self.w = witness
        self.inputs = witness.get("inputs", {})
        self.choices = dict(witness.get("choices", {}))
        self.stubs = list(witness.get("stubs") or [])
        self.stub_pos = 0
        self.mul_pairs = {}
        self.used = set()

    def real(self, name, lo=None, hi=None, lo_strict=False, hi_strict=False):
        if name not in self.inputs:
            raise ReplayMismatch("input %s not in witness" % name)
        self.used.add(name)
        return float(_num(self.inputs[name]))

    def int(self, name, lo=None, hi=None):
        if name not in self.inputs:
            raise ReplayMismatch("input %s not in witness" % name)
        self.used.add(name)
        v = _num(self.inputs[name])
        if float(v) != int(v):
            raise ReplayMismatch("input %s not integral" % name)
        return int(v)

    def choose(self, name, k):
        if k <= 1:
            return 0
        if name not in self.choices:
            raise ReplayMismatch("choice %s not in witness" % name)
        return int(self.choices[name])

    def stub_value(self, label):
        if self.stub_pos >= len(self.stubs):
            raise ReplayMismatch("stub call %s beyond the recorded ones" % label)
        lab, v = self.stubs[self.stub_pos]
        if lab != label:
            raise ReplayMismatch("stub order differs: %s vs recorded %s" % (label, lab))
        self.stub_pos += 1
        return float(_num(v))

    def stub_real(self, label):
        return self.stub_value(label)

    def assume(self, cond):
        if isinstance(cond, SymBool):
            cond = self.decide(cond.t)
        if not cond:
            raise ReplayMismatch("assumption violated in concrete replay")

    def decide(self, cond, tag=None):
        c = z3.simplify(cond)
        if z3.is_true(c):
            return True
        if z3.is_false(c):
            return False
        raise sym.EngineError("symbolic decision in concrete mode: %s" % str(c)[:100])

    def sqrt(self, x):
        raise sym.EngineError("Sym sqrt in concrete mode")


def run_concrete(mod, case, witness):
    """-> dict(outcome, failed=[names], outputs, exc)"""
    was = npmodel._installed[0]
    if was:
        npmodel.uninstall()
    ctx = CCtx(witness)
    sym.set_cur(ctx)
    res = dict(outcome=None, failed=[], outputs=None, exc=None)
    try:
        try:
            obligations, outputs = mod.run(ctx, case)
            res["outcome"] = "completed"
            res["outputs"] = outputs
            for name, cond in obligations:
                if isinstance(cond, SymBool):
                    cond = ctx.decide(cond.t)
                if not bool(cond):
                    res["failed"].append(name)
        except ReplayMismatch as e:
            res["outcome"] = "mismatch"
            res["exc"] = str(e)
        except sym.EngineError as e:
            res["outcome"] = "engine-error"
            res["exc"] = str(e)
        except Exception as e:
            res["outcome"] = "exception:" + type(e).__name__
            res["exc"] = "%s: %s" % (type(e).__name__, str(e)[:300])
            res["tb"] = traceback.format_exc()[-2000:]
    finally:
        sym.set_cur(None)
        if was:
            npmodel.install()
    return res


def _flat_outputs(outputs, prefix=""):
    """dict/list/DataFrame/ndarray/scalar -> {name: cell}"""
    import pandas as pd

    out = {}
    if outputs is None:
        return out
    if isinstance(outputs, dict):
        for k, v in outputs.items():
            out.update(_flat_outputs(v, "%s%s." % (prefix, k)))
    elif isinstance(outputs, pd.DataFrame):
        for c in outputs.columns:
            for i, v in enumerate(outputs[c].tolist()):
                out["%s%s[%d]" % (prefix, c, i)] = v
    elif isinstance(outputs, (pd.Series, np.ndarray, list, tuple)):
        vals = np.asarray(getattr(outputs, "values", outputs), dtype=object).ravel().tolist()
        for i, v in enumerate(vals):
            out["%s[%d]" % (prefix.rstrip("."), i)] = v
    else:
        out[prefix.rstrip(".")] = outputs
    return out


def _model_float(m, cell):
    if isinstance(cell, Sym):
        v = m.eval(cell.t, model_completion=True)
        if z3.is_rational_value(v):
            return v.numerator_as_long() / v.denominator_as_long()
        if z3.is_algebraic_value(v):
            return float(v.approx(20).as_fraction())
        v = z3.simplify(v)
        if z3.is_rational_value(v):
            return v.numerator_as_long() / v.denominator_as_long()
        raise sym.EngineError("cannot evaluate %s" % v)
    if isinstance(cell, SymBool):
        return bool(z3.is_true(m.eval(cell.t, model_completion=True)))
    return cell


def compare_outputs(sym_out, conc_out, m, tol=1e-6):
    a, b = _flat_outputs(sym_out), _flat_outputs(conc_out)
    if set(a) != set(b):
        return "output keys differ: %s" % sorted(set(a) ^ set(b))[:6]
    for k in a:
        x, y = _model_float(m, a[k]), b[k]
        if isinstance(x, (int, float, np.integer, np.floating, bool, np.bool_)) and isinstance(
                y, (int, float, np.integer, np.floating, bool, np.bool_)):
            x, y = float(x), float(y)
            if x != x and y != y:
                continue
            if x == y:
                continue
            if abs(x - y) <= tol * max(1.0, abs(x), abs(y)):
                continue
            return "%s: symbolic %r vs concrete %r" % (k, x, y)
        else:
            if x is None and y is None:
                continue
            try:
                if x != x and y != y:
                    continue
            except Exception:
                pass
            if str(x) != str(y):
                return "%s: symbolic %r vs concrete %r" % (k, x, y)
    return None


def shadow_model(ctx, block=()):
    """A model of the path condition for the shadow replay on floats.  Prefer one in 'generic position'
    (no rounding tie, no comparison exactly at its boundary) so that float evaluation follows the same path.
    Under abstract_mul the cached model interprets MUL(a,b) freely: pin the input variables to their model
    values (products become linear in the remaining stub outputs) and re-solve with exact products.
    block: extra constraints (used to ask for a different model after a mismatch)."""
    abstract = bool(ctx.abstract_mul and ctx.mul_pairs)
    m = ctx.get_model() if abstract else ctx.model
    if m is None and abstract:
        return None
    G = ctx.generic_constraints()
    nr = getattr(ctx, "n_generic_rint", 0)
    Gr = G[len(G) - nr:] if nr else []
    variants = [g for g in (Gr,) if g] + [[]]
    block = list(block)
    if not abstract:
        if G:
            # a path whose decisions force some comparison to sit exactly on its boundary (e.g. x > 0 false and x < 0 false)
            # cannot be reproduced with floats unless the boundary value is exactly representable: such paths are skipped
            r, m2 = ctx.check_fresh(list(G) + block)
            if r == z3.sat:
                return m2
            if r == z3.unsat and not block:
                return "boundary"
        for g in variants:
            if not g and not block and m is not None:
                return m
            r, m2 = ctx.check_fresh(list(g) + block)
            if r == z3.sat:
                return m2
        return None if block else m
    ax = ctx.exact()
    names = list(ctx.var_order)
    ints = [n for n in names if z3.is_int(ctx.vars[n])]
    for subset in (ints, names):
        pins = [ctx.vars[n] == m.eval(ctx.vars[n], model_completion=True) for n in subset]
        for g in variants:
            r, m2 = ctx.check_fresh(ax + pins + list(g) + block)
            if r == z3.sat:
                return m2
    return None


def shadow_check(mod, case, ctx, info, shadow, attempts=3):
    block = []
    last = None
    for k in range(attempts):
        m = shadow_model(ctx, block)
        if isinstance(m, str):
            shadow["boundary_paths"] = shadow.get("boundary_paths", 0) + 1
            return
        if m is None:
            break
        w = explorer.make_witness(ctx, m)
        r = run_concrete(mod, case, w)
        if r["outcome"] == "completed":
            diff = compare_outputs(info.get("outputs"), r["outputs"], m)
            if diff is None:
                shadow["ok"] += 1
                if k:
                    shadow["retried"] = shadow.get("retried", 0) + 1
                return
            last = diff
        else:
            last = "concrete outcome %s (%s)" % (r["outcome"], r["exc"])
        # ask for a model that differs on every real-valued input and on one more input
        diffs = [ctx.vars[n] != m.eval(ctx.vars[n], model_completion=True) for n in ctx.var_order
                 if not n.startswith("choice_")]
        if not diffs:
            break
        rdiffs = [ctx.vars[n] != m.eval(ctx.vars[n], model_completion=True) for n in ctx.var_order
                  if not n.startswith("choice_") and ctx.vars[n].is_real()]
        block = block + [z3.Or(*diffs)] + rdiffs[: 2 + k]
    if last is None:
        shadow["skipped"] = shadow.get("skipped", 0) + 1
    else:
        shadow["mismatch"] += 1
        shadow["notes"].append(last)


def explore_case(args):
    """worker: one case of one harness module. returns a JSON-able dict."""
    modname, case, opts = args
    t0 = time.time()
    try:
        mod = importlib.import_module(modname)
        prepare(mod)
        shadow = dict(ok=0, mismatch=0, notes=[])
        shadow_every = opts.get("shadow_every", 1)
        counter = [0]

        def on_path(ctx, info):
            counter[0] += 1
            if shadow_every <= 0 or (counter[0] - 1) % shadow_every != 0:
                return
            if getattr(mod, "NO_SHADOW", False):
                return
            shadow_check(mod, case, ctx, info, shadow)

        def run(ctx):
            return mod.run(ctx, case)

        rep = explorer.explore(run, on_path=on_path, max_paths=opts.get("max_paths", 20000),
                               deadline=t0 + opts.get("case_timeout_s", 600),
                               solver_timeout_ms=opts.get("solver_timeout_ms", 20000),
                               abstract_mul=getattr(mod, "ABSTRACT_MUL", False), seed=0,
                               stop_on_violation=opts.get("stop_on_violation", True),
                               backend=case.get("backend", getattr(mod, "BACKEND", "z3")))
        # replay candidates concretely
        confirmed, spurious = [], []
        seen = set()
        for c in rep["candidates"] + rep["crashes"]:
            key = (c["kind"], c["name"])
            if key in seen and len(confirmed) + len(spurious) > 20:
                continue
            seen.add(key)
            if c.get("witness") is None:
                spurious.append(dict(name=c["name"], why="no model"))
                continue
            r = run_concrete(mod, case, c["witness"])
            entry = dict(kind=c["kind"], name=c["name"], witness=c["witness"], concrete=dict(
                outcome=r["outcome"], failed=r["failed"][:10], exc=r["exc"]), message=c.get("message"))
            if c["kind"] == "obligation":
                ok = r["outcome"] == "completed" and c["name"] in r["failed"]
                if not ok and r["outcome"].startswith("exception:"):
                    ok = True  # the real code crashes on this input
                    entry["name"] = c["name"] + "|crash:" + r["outcome"].split(":", 1)[1]
            else:
                ok = r["outcome"] == "exception:" + c["name"]
                entry["tb"] = c.get("tb")
            entry["signature"] = signature(mod, case, entry)
            (confirmed if ok else spurious).append(entry)
        out = dict(case=case, paths=rep["paths"], aborted=rep["aborted"], checks=rep["checks"],
                   solver_s=round(rep["solver_s"], 3), decisions=rep["decisions"], forks=rep["forks"],
                   unknown_forks=rep["unknown_forks"], obligations=rep["obligations"], discharged=rep["discharged"],
                   exhausted=rep["exhausted"], pending=rep["pending"], unknowns=rep["unknowns"][:5],
                   n_unknown=len(rep["unknowns"]), confirmed=confirmed, spurious=spurious[:5], n_spurious=len(spurious),
                   shadow=shadow, samples=rep["samples"][:2], wall_s=round(time.time() - t0, 2), error=None)
        return out
    except BaseException as e:  # noqa
        return dict(case=case, error="%s: %s\n%s" % (type(e).__name__, e, traceback.format_exc()[-3000:]),
                    wall_s=round(time.time() - t0, 2))


def signature(mod, case, entry):
    f = getattr(mod, "signature", None)
    if f is not None:
        return f(case, entry)
    return "%s|%s|%s" % (case.get("name", ""), entry["kind"], entry["name"])


_prepared = set()


def prepare(mod):
    """import the repo modules, then install numpy adaptors (order matters)."""
    if "elexmodel.client" not in sys.modules:
        os.environ.setdefault("APP_ENV", "local")
        os.environ.setdefault("DATA_ENV", "dev")
        os.environ.setdefault("MODEL_S3_BUCKET", "bucket")
        os.environ.setdefault("MODEL_S3_PATH_ROOT", "root")
        import logging

        import scipy.stats  # noqa
        import elexmodel.client  # noqa
        import elexmodel.models.BootstrapElectionModel  # noqa

        logging.disable(logging.CRITICAL)
    npmodel.install()
    if mod.__name__ not in _prepared:
        _prepared.add(mod.__name__)
        if hasattr(mod, "setup"):
            mod.setup()


def source_hashes(qualnames):
    out = {}
    for q in qualnames:
        try:
            modname, _, attr = q.partition(":")
            m = importlib.import_module(modname)
            obj = m
            for part in attr.split("."):
                if part:
                    obj = getattr(obj, part)
            obj = getattr(obj, "__func__", obj)
            src = inspect.getsource(obj)
            out[q] = dict(file=os.path.relpath(inspect.getsourcefile(obj), REPO), sha256=hashlib.sha256(src.encode()).hexdigest()[:16],
                          lines=len(src.splitlines()))
        except Exception as e:
            out[q] = dict(error=str(e)[:100])
    return out


def load_known_findings():
    p = os.path.join(VERIF, "known_findings.json")
    if not os.path.exists(p):
        return []
    return json.load(open(p)).get("findings", [])


def run_module(modname, tier, seed, jobs=16, only=None):
    """explore all cases of a harness module; returns (exit_code, evidence dict). Prints VIOLATION / KNOWN-FINDING lines."""
    t0 = time.time()
    mod = importlib.import_module(modname)
    prepare(mod)
    n_self = npmodel.selftest(seed=seed, rounds=3)
    cases = mod.cases(tier)
    if only:
        cases = [c for c in cases if re.search(only, c.get("name", ""))]
    opts = dict(getattr(mod, "OPTS", {}).get(tier, {}))
    order = list(range(len(cases)))
    import random

    random.Random(seed).shuffle(order)
    # longest first if the harness gives weights
    order.sort(key=lambda i: -cases[i].get("weight", 0))
    args = [(modname, cases[i], opts) for i in order]
    results = []
    if jobs > 1 and len(args) > 1:
        ctxmp = mp.get_context("fork")
        with ctxmp.Pool(min(jobs, len(args)), maxtasksperchild=8) as pool:
            for r in pool.imap_unordered(explore_case, args, chunksize=1):
                results.append(r)
    else:
        for a in args:
            results.append(explore_case(a))
    return summarise(mod, tier, seed, results, t0, n_self)


def summarise(mod, tier, seed, results, t0, n_self):
    pid = mod.ID
    known = [k for k in load_known_findings() if k.get("property") == pid and k.get("status", "known") == "known"]
    errors = [r for r in results if r.get("error")]
    tot = dict(paths=0, checks=0, solver_s=0.0, obligations=0, discharged=0, shadow_ok=0, shadow_mismatch=0,
               n_unknown=0, n_spurious=0, decisions=0, forks=0, unknown_forks=0)
    confirmed, inconclusive = [], []
    shadow_notes = []
    samples = []
    per_case = []
    for r in results:
        if r.get("error"):
            inconclusive.append("case %s: engine error: %s" % (r["case"].get("name"), r["error"].splitlines()[0]))
            continue
        for k in ("paths", "checks", "solver_s", "obligations", "discharged", "n_unknown", "n_spurious", "decisions",
                  "forks", "unknown_forks"):
            tot[k] += r[k]
        tot["shadow_ok"] += r["shadow"]["ok"]
        tot["shadow_skipped"] = tot.get("shadow_skipped", 0) + r["shadow"].get("skipped", 0) + r["shadow"].get("boundary_paths", 0)
        tot["shadow_mismatch"] += r["shadow"]["mismatch"]
        if not r["exhausted"]:
            inconclusive.append("case %s: exploration not exhausted (%d pending)" % (r["case"].get("name"), r["pending"]))
        if r["n_unknown"]:
            inconclusive.append("case %s: %d solver unknown(s): %s" % (r["case"].get("name"), r["n_unknown"],
                                                                       r["unknowns"][0]["name"][:200]))
        if r["n_spurious"]:
            inconclusive.append("case %s: %d candidate(s) did not reproduce concretely: %s" % (
                r["case"].get("name"), r["n_spurious"], json.dumps(r["spurious"][0], default=str)[:300]))
        if r["shadow"]["mismatch"]:
            shadow_notes.append("case %s: %s" % (r["case"].get("name"), r["shadow"]["notes"][:2]))
        for c in r["confirmed"]:
            confirmed.append((r["case"], c))
        for s in r["samples"]:
            if len(samples) < 4:
                samples.append(dict(case=r["case"].get("name"), **s))
        per_case.append(dict(case=r["case"].get("name"), paths=r["paths"], obligations=r["obligations"],
                             solver_s=r["solver_s"], wall_s=r["wall_s"], shadow_ok=r["shadow"]["ok"]))
    # shadow replay: isolated float-vs-real boundary divergences are tolerated (the solver likes models that sit exactly on a
    # comparison or rounding boundary, where float evaluation may take the other side); a wrong adaptor or proxy shows up as
    # systematic mismatches, which make the run inconclusive
    if tot["shadow_mismatch"] > max(2, 0.05 * (tot["shadow_ok"] + tot["shadow_mismatch"])):
        inconclusive.append("shadow replay: %d of %d paths disagree with the float run: %s" % (
            tot["shadow_mismatch"], tot["shadow_ok"] + tot["shadow_mismatch"], shadow_notes[:2]))
    # violations vs known findings
    new_violations, matched = [], {}
    os.makedirs(os.path.join(VERIF, "replays"), exist_ok=True)
    for case, c in confirmed:
        k = next((k for k in known if re.search(k["match"], c["signature"])), None)
        if k is not None:
            matched.setdefault(k["id"], (k, c))
            continue
        new_violations.append((case, c))
    lines = []
    for kid, (k, c) in matched.items():
        lines.append("KNOWN-FINDING: property=%s %s [%s]" % (pid, k["what"], kid))
    replay_paths = []
    seen_sig = set()
    for case, c in new_violations:
        if c["signature"] in seen_sig:
            continue
        seen_sig.add(c["signature"])
        h = hashlib.sha256(json.dumps([case, c["witness"]], sort_keys=True, default=str).encode()).hexdigest()[:10]
        path = os.path.join(VERIF, "replays", "%s_%s.json" % (pid, h))
        json.dump(dict(property=pid, module=mod.__name__, case=case, violation=dict(kind=c["kind"], name=c["name"],
                  signature=c["signature"], concrete=c["concrete"], message=c.get("message")), witness=c["witness"]),
                  open(path, "w"), indent=1, default=str)
        replay_paths.append(path)
        lines.append("VIOLATION property=%s replay=%s" % (pid, path))
        lines.append("  %s" % c["signature"])
    code = 1 if new_violations else (2 if inconclusive else 0)
    n_cases = len(results)
    ev = dict(
        property_id=pid, tier=tier, seed=seed, level="model_checking",
        coverage=dict(
            states=max(tot["paths"], 0), transitions=max(tot["checks"], 0),
            traces_validated_against_impl=tot["shadow_ok"],
            obligations=tot["obligations"], discharged=tot["discharged"],
            evaluations=tot["paths"], distinct_nontrivial=tot["paths"],
            rule="one evaluation = one feasible symbolic path (distinct decision sequence through the real code) of one "
                 "harness case; each is non-trivial because the solver found its path condition satisfiable; every "
                 "obligation on it is an SMT query over all values of the symbolic inputs",
            samples=samples or [dict(note="no completed path")],
            exhaustive=not inconclusive,
            cases=n_cases, per_case=per_case[:60], solver_seconds=round(tot["solver_s"], 2),
            decisions=tot["decisions"], forks=tot["forks"], unknown_forks=tot["unknown_forks"],
            functions_encoded=source_hashes(getattr(mod, "ENCODED", [])),
            bounds=getattr(mod, "BOUNDS", {}).get(tier, getattr(mod, "BOUNDS", {})),
            outside_bounds=getattr(mod, "OUTSIDE", []),
            stubs=getattr(mod, "STUBS", []),
            adaptor_selftest_comparisons=n_self, shadow_replays_skipped=tot.get("shadow_skipped", 0),
            shadow_boundary_divergences=tot["shadow_mismatch"], shadow_divergence_samples=shadow_notes[:3],
            solver="z3 %s (python API), incremental + fresh-solver fallback" % z3.get_version_string(),
            known_findings_matched=sorted(matched), inconclusive=inconclusive[:10],
            technique="solver-based: dynamic symbolic execution of the real functions (z3), bounded",
        ),
        assumptions=getattr(mod, "ASSUMES", []),
        wall_s=round(time.time() - t0, 2),
        violations=len(seen_sig),
    )
    return code, ev, lines
