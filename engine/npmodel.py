"""numpy / pandas / scipy adaptors for object-dtype arrays holding Sym cells.

Only calls whose operands contain symbolic cells are diverted; everything else
falls through to the original function.  ``install()`` must be called AFTER
scipy / cvxpy / elexmodel have been imported (scipy.stats uses np.maximum.reduce
at import time).  Each adaptor is differential-tested against the original in
``selftest()``.
"""
import math

import numpy as np
import z3

from . import sym
from .sym import Sym, SymBool, ite, smax, smin, is_special

_orig = {}
_installed = [False]


def has_sym(*args):
    for a in args:
        if isinstance(a, (Sym, SymBool)):
            return True
        v = getattr(a, "values", a)
        if isinstance(v, np.ndarray) and v.dtype == object:
            for e in v.flat:
                if isinstance(e, (Sym, SymBool)):
                    return True
        elif isinstance(v, (list, tuple)):
            if has_sym(*v):
                return True
    return False


def _arr(a):
    return getattr(a, "values", a)


class UProxy:
    """callable replacement for a ufunc that forwards attribute access (.reduce, .accumulate, ...)"""

    def __init__(self, f, orig):
        self._f = f
        self._o = orig
        self.__name__ = getattr(orig, "__name__", "ufunc")

    def __call__(self, *a, **k):
        return self._f(*a, **k)

    def __getattr__(self, n):
        return getattr(self._o, n)


_umax = np.frompyfunc(smax, 2, 1)
_umin = np.frompyfunc(smin, 2, 1)


def _where1(c, a, b):
    return ite(c, a, b)


_uwhere = np.frompyfunc(_where1, 3, 1)


def _clip1(a, lo, hi):
    r = a
    if lo is not None:
        r = smax(r, lo)
    if hi is not None:
        r = smin(r, hi)
    return r


_uclip = np.frompyfunc(_clip1, 3, 1)


def _nan_to_num1(nan, posinf, neginf):
    def f(e):
        if isinstance(e, Sym):
            return e
        if isinstance(e, (float, np.floating)):
            if e != e:
                return nan
            if e == math.inf:
                return posinf if posinf is not None else 1.7976931348623157e308
            if e == -math.inf:
                return neginf if neginf is not None else -1.7976931348623157e308
        return e

    return np.frompyfunc(f, 1, 1)


def _isnan1(e):
    return isinstance(e, (float, np.floating)) and e != e


def _isinf1(e):
    return isinstance(e, (float, np.floating)) and e in (math.inf, -math.inf)


def _sqrt1(e):
    if isinstance(e, Sym):
        return e.sqrt()
    e = float(e)
    return math.sqrt(e) if e >= 0 else math.nan


_usqrt = np.frompyfunc(_sqrt1, 1, 1)
_uisnan = np.frompyfunc(_isnan1, 1, 1)
_uisinf = np.frompyfunc(_isinf1, 1, 1)


def order_statistics(v):
    """sorted copy of v as fresh variables s_0 <= ... <= s_{n-1} defined by counting constraints (cheaper for the solver than a
    sorting network of nested If-terms): s_k is one of the v_i, at least k+1 values are <= s_k and at least n-k are >= s_k."""
    c = sym.cur()
    n = len(v)
    ts = [sym.term(e) for e in v]
    c.uf_count += 1
    ss = [z3.Real("ord%d_%d" % (c.uf_count, k)) for k in range(n)]
    one, zero = z3.IntVal(1), z3.IntVal(0)
    cons = [ss[k] <= ss[k + 1] for k in range(n - 1)]
    for k in range(n):
        cons.append(z3.Sum([z3.If(t <= ss[k], one, zero) for t in ts]) >= k + 1)
        cons.append(z3.Sum([z3.If(t >= ss[k], one, zero) for t in ts]) >= n - k)
        cons.append(z3.Or(*[ss[k] == t for t in ts]))
    c.assume_t(z3.And(*cons))
    return [Sym(x) for x in ss]


def sym_quantile(values, q):
    """numpy's default ('linear') quantile on a 1-d list of cells via a sorting network of If-terms."""
    v = list(values)
    n = len(v)
    if n == 0:
        return math.nan
    if n >= 99 and all(isinstance(e, Sym) or sym.is_num(e) for e in v) and not any(is_special(e) for e in v):
        v = order_statistics(v)
    else:
        for i in range(n):
            for j in range(n - 1 - i):
                lo, hi = smin(v[j], v[j + 1]), smax(v[j], v[j + 1])
                v[j], v[j + 1] = lo, hi
    if not (0 <= q <= 1):
        raise ValueError("Quantiles must be in the range [0, 1]")
    pos = q * (n - 1)
    k = int(math.floor(pos))
    g = pos - k
    if g == 0 or k + 1 >= n:
        return v[min(k, n - 1)]
    # numpy: lerp a + (b-a)*g  (value-equal over the reals to the symmetric variant it uses for g>=0.5)
    return v[k] + (v[k + 1] - v[k]) * g


def install():
    if _installed[0]:
        return
    _installed[0] = True
    import numpy
    import numpy._core.umath as um
    import numpy._core.fromnumeric as fn

    o = _orig
    o.update(maximum=numpy.maximum, minimum=numpy.minimum, nan_to_num=numpy.nan_to_num, isclose=numpy.isclose,
             quantile=numpy.quantile, where=numpy.where, isnan=numpy.isnan, isinf=numpy.isinf, clip_um=um.clip,
             amin=numpy.min, amax=numpy.max, sqrt=numpy.sqrt, floor=numpy.floor, ceil=numpy.ceil,
             isfinite=numpy.isfinite)

    def maximum(a, b, *args, **kw):
        if has_sym(a, b):
            return _umax(a, b)
        return o["maximum"](a, b, *args, **kw)

    def minimum(a, b, *args, **kw):
        if has_sym(a, b):
            return _umin(a, b)
        return o["minimum"](a, b, *args, **kw)

    def where(c, *rest):
        if rest and has_sym(c, *rest):
            return _uwhere(_arr(c), _arr(rest[0]), _arr(rest[1]))
        return o["where"](c, *rest)

    def clip(a, lo=None, hi=None, out=None, **kw):
        if has_sym(a, lo, hi):
            r = _uclip(a, lo, hi)
            if out is not None:
                out[...] = r
                return out
            return r
        if out is None:
            return o["clip_um"](a, lo, hi, **kw)
        return o["clip_um"](a, lo, hi, out=out, **kw)

    def nan_to_num(x, copy=True, nan=0.0, posinf=None, neginf=None):
        v = _arr(x)
        if isinstance(v, np.ndarray) and v.dtype == object:
            return _nan_to_num1(nan, posinf, neginf)(v)
        if isinstance(x, Sym):
            return x
        return o["nan_to_num"](x, copy=copy, nan=nan, posinf=posinf, neginf=neginf)

    def isnan(x, *a, **k):
        v = _arr(x)
        if isinstance(v, np.ndarray) and v.dtype == object:
            return _uisnan(v).astype(bool)
        if isinstance(x, Sym):
            return False
        return o["isnan"](x, *a, **k)

    def isinf(x, *a, **k):
        v = _arr(x)
        if isinstance(v, np.ndarray) and v.dtype == object:
            return _uisinf(v).astype(bool)
        if isinstance(x, Sym):
            return False
        return o["isinf"](x, *a, **k)

    def isfinite(x, *a, **k):
        v = _arr(x)
        if isinstance(v, np.ndarray) and v.dtype == object:
            return ~(_uisnan(v).astype(bool) | _uisinf(v).astype(bool))
        if isinstance(x, Sym):
            return True
        return o["isfinite"](x, *a, **k)

    def isclose(a, b, rtol=1e-05, atol=1e-08, equal_nan=False):
        if has_sym(a, b):
            def f(x, y):
                if isinstance(x, Sym) or isinstance(y, Sym):
                    if is_special(x) or is_special(y):
                        return False
                    return bool(abs(x - y) <= atol + rtol * abs(y))
                return bool(o["isclose"](x, y, rtol, atol, equal_nan))

            r = np.frompyfunc(f, 2, 1)(_arr(a), _arr(b))
            if isinstance(r, np.ndarray):
                return r.astype(bool)
            return bool(r)
        return o["isclose"](a, b, rtol=rtol, atol=atol, equal_nan=equal_nan)

    def quantile(a, q, axis=None, **kw):
        if has_sym(a):
            v = np.asarray(_arr(a), dtype=object)
            qs = np.atleast_1d(np.asarray(q, dtype=float))
            scalar_q = np.ndim(q) == 0
            if axis is None or v.ndim == 1:
                res = [sym_quantile(list(v.ravel()), float(x)) for x in qs]
                if scalar_q:
                    return res[0]
                r = np.empty(len(res), dtype=object)
                r[:] = res
                return r
            if axis in (-1, v.ndim - 1) and v.ndim == 2:
                out = np.empty((len(qs), v.shape[0]), dtype=object)
                for i in range(v.shape[0]):
                    for j, x in enumerate(qs):
                        out[j, i] = sym_quantile(list(v[i]), float(x))
                return out[0] if scalar_q else out
            raise sym.Inconclusive("quantile axis=%r ndim=%d" % (axis, v.ndim))
        return o["quantile"](a, q, axis=axis, **kw)

    def _reduce(fn2):
        def red(a, axis=None, **kw):
            v = np.asarray(_arr(a), dtype=object)
            if axis is None:
                it = list(v.ravel())
                if not it:
                    raise ValueError("zero-size array to reduction operation which has no identity")
                r = it[0]
                for e in it[1:]:
                    r = fn2(r, e)
                return r
            return np.apply_along_axis(lambda x: red(x), axis, v)

        return red

    rmin, rmax = _reduce(smin), _reduce(smax)

    def amin(a, axis=None, *args, **kw):
        if has_sym(a):
            return rmin(a, axis)
        return o["amin"](a, axis, *args, **kw)

    def amax(a, axis=None, *args, **kw):
        if has_sym(a):
            return rmax(a, axis)
        return o["amax"](a, axis, *args, **kw)

    def sqrt(x, *a, **k):
        v = _arr(x)
        if isinstance(x, Sym):
            return x.sqrt()
        if isinstance(v, np.ndarray) and v.dtype == object:
            return _usqrt(x)
        return o["sqrt"](x, *a, **k)

    o["divide"] = numpy.divide

    def divide(a, b, *args, out=None, where=True, **kw):
        if has_sym(a, b):
            aa, bb = np.broadcast_arrays(np.asarray(_arr(a), dtype=object), np.asarray(_arr(b), dtype=object))
            mask = np.broadcast_to(np.asarray(where, dtype=bool), aa.shape)
            res = np.empty(aa.shape, dtype=object)
            if out is not None:
                res[...] = np.asarray(out, dtype=object)
            for idx in np.ndindex(*aa.shape):
                if mask[idx]:
                    res[idx] = aa[idx] / bb[idx]
                elif out is None:
                    res[idx] = 0.0  # numpy leaves such cells uninitialised; the repository always passes out=
            return res if res.shape else res.item()
        if out is not None:
            kw["out"] = out
        if where is not True:
            kw["where"] = where
        return o["divide"](a, b, *args, **kw)

    numpy.divide = UProxy(divide, o["divide"])
    numpy.true_divide = numpy.divide
    numpy.sqrt = UProxy(sqrt, o["sqrt"])
    numpy.maximum = UProxy(maximum, o["maximum"])
    numpy.minimum = UProxy(minimum, o["minimum"])
    um.maximum = numpy.maximum
    um.minimum = numpy.minimum
    um.clip = UProxy(clip, o["clip_um"])
    numpy.where = where
    numpy.nan_to_num = nan_to_num
    numpy.isnan = UProxy(isnan, o["isnan"])
    numpy.isinf = UProxy(isinf, o["isinf"])
    numpy.isfinite = UProxy(isfinite, o["isfinite"])
    numpy.isclose = isclose
    numpy.quantile = quantile
    numpy.min = numpy.amin = amin
    numpy.max = numpy.amax = amax

    # pandas: let object columns of Sym through .mean()/.sum() without float conversion
    import pandas.core.nanops as nanops

    o["_ensure_numeric"] = nanops._ensure_numeric

    def _ensure_numeric(x):
        if isinstance(x, Sym):
            return x
        if isinstance(x, np.ndarray) and x.dtype == object and has_sym(x):
            return x
        return o["_ensure_numeric"](x)

    nanops._ensure_numeric = _ensure_numeric

    # pandas: a float (n, 1) array can be assigned to a column; an object (n, 1) array trips maybe_convert_objects.
    import pandas.core.construction as pcc
    import pandas.core.frame as pframe

    o["sanitize_array"] = pcc.sanitize_array

    def sanitize_array(data, index, dtype=None, copy=False, *, allow_2d=False):
        if isinstance(data, np.ndarray) and data.dtype == object and data.ndim == 2 and data.shape[1] == 1:
            data = data[:, 0]
        return o["sanitize_array"](data, index, dtype=dtype, copy=copy, allow_2d=allow_2d)

    pcc.sanitize_array = sanitize_array
    if hasattr(pframe, "sanitize_array"):
        pframe.sanitize_array = sanitize_array

    # pandas: Series / Series on object columns that mix Sym cells and plain floats must divide like float64 cells
    # (x / 0.0 -> inf / nan), not like Python floats (ZeroDivisionError)
    import pandas.core.computation.expressions as pexpr

    o["_evaluate_standard"] = pexpr._evaluate_standard

    def _safe_div1(x, y):
        try:
            return x / y
        except ZeroDivisionError:
            x = float(x)
            return math.nan if (x == 0 or x != x) else math.copysign(math.inf, x)

    _usafe_div = np.frompyfunc(_safe_div1, 2, 1)

    def _evaluate_standard(op, op_str, a, b):
        if op_str == "/" and (getattr(a, "dtype", None) == object or getattr(b, "dtype", None) == object):
            if getattr(op, "__name__", "") == "rtruediv":
                a, b = b, a
            return _usafe_div(a, b)
        return o["_evaluate_standard"](op, op_str, a, b)

    pexpr._evaluate_standard = _evaluate_standard
    if getattr(pexpr, "_evaluate", None) is o["_evaluate_standard"]:
        pexpr._evaluate = _evaluate_standard
        o["_evaluate_was_standard"] = True

    # scipy.stats.norm.ppf(q, loc, scale) = loc + scale * ppf(q)   (q concrete)
    from scipy import stats

    o["norm_ppf"] = stats.norm.ppf

    def ppf(q, loc=0, scale=1, *a, **k):
        if has_sym(loc, scale):
            z = o["norm_ppf"](q)
            r = _arr(loc) + _arr(scale) * z  # scipy returns a bare ndarray / scalar, never a Series
            return r
        return o["norm_ppf"](q, loc, scale, *a, **k)

    stats.norm.ppf = ppf


def uninstall():
    if not _installed[0]:
        return
    import numpy
    import numpy._core.umath as um
    import pandas.core.nanops as nanops
    from scipy import stats

    o = _orig
    numpy.sqrt = o["sqrt"]
    numpy.divide = numpy.true_divide = o["divide"]
    numpy.maximum = um.maximum = o["maximum"]
    numpy.minimum = um.minimum = o["minimum"]
    um.clip = o["clip_um"]
    numpy.where = o["where"]
    numpy.nan_to_num = o["nan_to_num"]
    numpy.isnan = o["isnan"]
    numpy.isinf = o["isinf"]
    numpy.isfinite = o["isfinite"]
    numpy.isclose = o["isclose"]
    numpy.quantile = o["quantile"]
    numpy.min = numpy.amin = o["amin"]
    numpy.max = numpy.amax = o["amax"]
    nanops._ensure_numeric = o["_ensure_numeric"]
    stats.norm.ppf = o["norm_ppf"]
    import pandas.core.computation.expressions as pexpr

    pexpr._evaluate_standard = o["_evaluate_standard"]
    if o.get("_evaluate_was_standard"):
        pexpr._evaluate = o["_evaluate_standard"]
    import pandas.core.construction as pcc
    import pandas.core.frame as pframe

    pcc.sanitize_array = o["sanitize_array"]
    if hasattr(pframe, "sanitize_array"):
        pframe.sanitize_array = o["sanitize_array"]
    _installed[0] = False


# ------------------------------------------------------------------ self-test
def _symarr(x):
    a = np.empty(x.shape, dtype=object)
    for idx in np.ndindex(*x.shape):
        a[idx] = Sym(sym.RV(float(x[idx])))
    return a


def _tofloat(r):
    def f(e):
        if isinstance(e, Sym):
            v = z3.simplify(e.t)
            if z3.is_rational_value(v):
                return v.numerator_as_long() / v.denominator_as_long()
            if z3.is_algebraic_value(v):
                return float(v.approx(20).as_fraction())
            raise AssertionError("not constant: %s" % v)
        return float(e)

    if isinstance(r, np.ndarray):
        return np.vectorize(f, otypes=[float])(r)
    return f(r)


def selftest(seed=0, rounds=20):
    """differential test of every adaptor against the original numpy function on random floats."""
    from .explorer import Ctx

    assert _installed[0]
    rng = np.random.default_rng(seed)
    n_checked = 0
    ctx = Ctx()
    sym.set_cur(ctx)
    try:
        for _ in range(rounds):
            x = np.round(rng.normal(size=(3, 4)) * 10) / 4
            y = np.round(rng.normal(size=(3, 4)) * 10) / 4
            sx, sy = _symarr(x), _symarr(y)
            pairs = [
                (np.maximum(sx, sy), _orig["maximum"](x, y)),
                (np.minimum(sx, y), _orig["minimum"](x, y)),
                (np.maximum(sx, 0.5), _orig["maximum"](x, 0.5)),
                (sx.clip(min=-1, max=y + 3), x.clip(min=-1, max=y + 3)),
                (np.clip(sx, -0.5, 0.75), _orig["clip_um"](x, -0.5, 0.75)),
                (np.abs(sx), np.abs(x)),
                (np.quantile(sx[0], 0.3), _orig["quantile"](x[0], 0.3)),
                (np.quantile(sx[1], 0.5), _orig["quantile"](x[1], 0.5)),
                (np.quantile(sx[2], 0.95), _orig["quantile"](x[2], 0.95)),
                (np.quantile(sx, [0.25, 0.75], axis=-1), _orig["quantile"](x, [0.25, 0.75], axis=-1)),
                (np.min(sx), x.min()), (np.max(sx), x.max()),
                (np.round(sx * 2 + 0.5), np.round(x * 2 + 0.5)),
                (np.floor(sx), np.floor(x)), (np.ceil(sx), np.ceil(x)),
                ((sx / (np.abs(sy) + 1)), x / (np.abs(y) + 1)),
                (np.power(sx, 2), np.power(x, 2)),
                (np.sum(sx, axis=0), np.sum(x, axis=0)),
            ]
            for got, want in pairs:
                g = _tofloat(got)
                assert np.allclose(g, want, rtol=1e-12, atol=1e-12), (got, want)
                n_checked += 1
            w = np.where(_symarr(x) > 0, sy, 1.0) if False else None  # (object > forks; covered by harness shadow replay)
            from scipy import stats

            g = _tofloat(stats.norm.ppf(0.9, loc=sx[0], scale=np.abs(sy[0]) + 1))
            want = _orig["norm_ppf"](0.9, loc=x[0], scale=np.abs(y[0]) + 1)
            assert np.allclose(g, want, rtol=1e-9), (g, want)
            n_checked += 1
            # specials
            z = np.array([Sym(sym.RV(1)), math.nan, math.inf, -math.inf, 2.0], dtype=object)
            r = np.nan_to_num(z, nan=0, posinf=0, neginf=0)
            assert _tofloat(r).tolist() == [1.0, 0.0, 0.0, 0.0, 2.0]
            assert np.isnan(z).tolist() == [False, True, False, False, False]
            assert np.isinf(z).tolist() == [False, False, True, True, False]
            n_checked += 3
    finally:
        sym.set_cur(None)
    return n_checked
