"""Symbolic scalar proxies (z3 reals) that live inside object-dtype numpy / pandas
containers.  Real pandas and numpy do all the structural work; every arithmetic
operation on a cell builds a z3 term, every ``bool()`` of a comparison forks the
explorer (see explorer.py).

Number model: mathematical reals (integers are Int variables wrapped in ToReal).
A value is kept as a quotient ``n / d`` with ``d > 0`` implied by the path
condition wherever possible, so that comparisons are sent to the solver
cross-multiplied (linear when one side is concrete).
"""
import fractions
import math

import numpy as np
import z3


class Abort(BaseException):
    """Current path is infeasible / abandoned (BaseException: never swallowed by the code under test)."""


class Inconclusive(Exception):
    """Solver said unknown or the engine met an operation it cannot model."""


class EngineError(Exception):
    pass


_CTX = [None]


def cur():
    c = _CTX[0]
    if c is None:
        raise EngineError("symbolic value used outside an exploration context")
    return c


def set_cur(c):
    _CTX[0] = c


def RV(x):
    """Exact z3 real constant for a python / numpy number."""
    if isinstance(x, (bool, np.bool_)):
        return z3.RealVal(int(x))
    if isinstance(x, (int, np.integer)):
        return z3.RealVal(int(x))
    if isinstance(x, fractions.Fraction):
        return z3.RealVal(str(x))
    if isinstance(x, (float, np.floating)):
        return z3.RealVal(str(fractions.Fraction(float(x))))
    raise TypeError(type(x))


def is_special(o):
    return isinstance(o, (float, np.floating)) and (o != o or o in (math.inf, -math.inf))


def is_num(o):
    return isinstance(o, (bool, np.bool_, int, np.integer, float, np.floating, fractions.Fraction))


_MUL = z3.Function("MUL", z3.RealSort(), z3.RealSort(), z3.RealSort())


def _is_const(t):
    return z3.is_rational_value(t) or z3.is_int_value(t) or z3.is_algebraic_value(t)


def zmul(a, b):
    """a*b; under ctx.abstract_mul a product of two non-constant terms becomes MUL(a,b) (uninterpreted)."""
    if _is_const(a) or _is_const(b):
        return a * b
    c = _CTX[0]
    if c is not None and c.abstract_mul:
        a, b = (a, b) if a.get_id() <= b.get_id() else (b, a)
        key = (a.get_id(), b.get_id())
        m = _MUL(a, b)
        if key not in c.mul_pairs:
            c.mul_pairs[key] = (a, b)
            # sign lemmas (linear consequences of m = a*b), so that sign reasoning survives the abstraction
            z = z3.RealVal(0)
            c.assume_t(z3.And(
                z3.Implies(z3.Or(a == z, b == z), m == z),
                z3.Implies(z3.Or(z3.And(a > z, b > z), z3.And(a < z, b < z)), m > z),
                z3.Implies(z3.Or(z3.And(a > z, b < z), z3.And(a < z, b > z)), m < z)))
        return m
    return a * b


class Sym:
    """Symbolic real.  value = n / d  (d is None -> value = n)."""

    __slots__ = ("n", "d")

    def __init__(self, n, d=None):
        self.n = n
        self.d = d

    # ------------------------------------------------------------------ terms
    @property
    def t(self):
        if self.d is None:
            return self.n
        return self.n / self.d

    @staticmethod
    def lift(o):
        """-> Sym | python special float | NotImplemented"""
        if isinstance(o, Sym):
            return o
        if isinstance(o, SymBool):
            return Sym(z3.If(o.t, z3.RealVal(1), z3.RealVal(0)))
        if is_special(o):
            return float(o)
        if is_num(o):
            return Sym(RV(o))
        if isinstance(o, np.ndarray) and o.ndim == 0:
            return Sym.lift(o.item())
        return NotImplemented

    def _simp(self):
        self.n = z3.simplify(self.n)
        return self

    # ------------------------------------------------------------- arithmetic
    def __add__(self, o):
        o = Sym.lift(o)
        if o is NotImplemented:
            return o
        if isinstance(o, float):
            return o  # x + nan = nan, x + inf = inf
        if self.d is None and o.d is None:
            return Sym(self.n + o.n)._simp()
        if self.d is not None and o.d is not None and self.d.eq(o.d):
            return Sym(self.n + o.n, self.d)._simp()
        if self.d is not None and o.d is None:
            return Sym(self.n + zmul(o.n, self.d), self.d)._simp()
        if self.d is None and o.d is not None:
            return Sym(zmul(self.n, o.d) + o.n, o.d)._simp()
        return Sym(zmul(self.n, o.d) + zmul(o.n, self.d), zmul(self.d, o.d))._simp()

    __radd__ = __add__

    def __neg__(self):
        return Sym(-self.n, self.d)._simp()

    def __pos__(self):
        return self

    def __sub__(self, o):
        o = Sym.lift(o)
        if o is NotImplemented:
            return o
        if isinstance(o, float):
            return -o
        return self + (-o)

    def __rsub__(self, o):
        o = Sym.lift(o)
        if o is NotImplemented:
            return o
        if isinstance(o, float):
            return o
        return o + (-self)

    def __mul__(self, o):
        o = Sym.lift(o)
        if o is NotImplemented:
            return o
        if isinstance(o, float):
            if o != o:
                return o
            s = self.sign_decide()
            return math.nan if s == 0 else (o if s > 0 else -o)
        n = zmul(self.n, o.n)
        if self.d is None and o.d is None:
            return Sym(n)._simp()
        if self.d is None:
            return Sym(n, o.d)._simp()
        if o.d is None:
            return Sym(n, self.d)._simp()
        return Sym(n, zmul(self.d, o.d))._simp()

    __rmul__ = __mul__

    def sign_decide(self):
        if bool(self > 0):
            return 1
        if bool(self < 0):
            return -1
        return 0

    def _div(num, den):  # noqa: N805  (static helper: num, den are Sym)
        c = cur()
        # 0 divisor?
        if c.decide(den.n == 0, tag="div0"):
            s = num.sign_decide()
            return math.inf if s > 0 else (-math.inf if s < 0 else math.nan)
        # sign of divisor (d of den is > 0 by invariant, so sign(den) = sign(den.n))
        pos = c.decide(den.n > 0, tag="divsign")
        # num/den = (num.n/num.d) / (den.n/den.d) = (num.n*den.d) / (num.d*den.n)
        nn = num.n if den.d is None else zmul(num.n, den.d)
        dd = den.n if num.d is None else zmul(num.d, den.n)
        if not pos:
            nn, dd = -nn, -dd
        if _is_const(z3.simplify(dd)):
            return Sym(z3.simplify(nn / dd))
        return Sym(z3.simplify(nn), z3.simplify(dd))

    def __truediv__(self, o):
        o = Sym.lift(o)
        if o is NotImplemented:
            return o
        if isinstance(o, float):
            return math.nan if o != o else Sym(RV(0))
        return Sym._div(self, o)

    def __rtruediv__(self, o):
        o = Sym.lift(o)
        if o is NotImplemented:
            return o
        if isinstance(o, float):
            if o != o:
                return o
            s = self.sign_decide()
            return math.nan if s == 0 else (o if s > 0 else -o)
        return Sym._div(o, self)

    def __pow__(self, k):
        if isinstance(k, Sym):
            raise Inconclusive("symbolic exponent")
        if float(k) == 0.5:
            return self.sqrt()
        if float(k).is_integer() and 0 <= int(k) <= 4:
            r = Sym(RV(1))
            for _ in range(int(k)):
                r = r * self
            return r
        raise Inconclusive("pow %r" % (k,))

    def __abs__(self):
        if self.d is None:
            return Sym(z3.If(self.n >= 0, self.n, -self.n))
        return Sym(z3.If(self.n >= 0, self.n, -self.n), self.d)

    def sqrt(self):
        return cur().sqrt(self)

    # rounding -----------------------------------------------------------------
    def rint(self):
        """round-half-to-even, as numpy.rint / Python round()."""
        x = self.t
        c = _CTX[0]
        if c is not None and hasattr(c, "rint_args") and len(c.rint_args) < 200:
            c.rint_args.append(x)
        f = z3.ToInt(x + z3.RealVal("1/2"))
        tie = z3.ToReal(f) == x + z3.RealVal("1/2")
        r = z3.If(z3.And(tie, f % 2 != 0), f - 1, f)
        return Sym(z3.ToReal(r))

    def __round__(self, n=None):
        if n in (None, 0):
            return self.rint()
        return (self * (10 ** n)).rint() / (10 ** n)

    def __floor__(self):
        return Sym(z3.ToReal(z3.ToInt(self.t)))

    def __ceil__(self):
        return Sym(-z3.ToReal(z3.ToInt(-self.t)))

    floor = __floor__
    ceil = __ceil__

    def _concretise_int(self):
        """int(x): fork over the integer values inside the range the harness declared (ctx.int_range)"""
        c = cur()
        rng = getattr(c, "int_range", None)
        if rng is None:
            raise Inconclusive("int() of a symbolic value (no int_range declared by the harness)")
        lo, hi = rng
        t = self.t
        tr = z3.If(t >= 0, z3.ToInt(t), -z3.ToInt(-t))
        for k in range(lo, hi + 1):
            if c.decide(tr == k, tag="int()"):
                return k
        raise Inconclusive("int() of a symbolic value outside the declared range %r" % (rng,))

    def __trunc__(self):
        return self._concretise_int()

    def __float__(self):
        raise TypeError("symbolic value realised to float")

    def __int__(self):
        return self._concretise_int()

    def __index__(self):
        raise TypeError("symbolic value used as index")

    def __hash__(self):
        raise TypeError("symbolic value used as a key (group / merge / dict)")

    # comparisons --------------------------------------------------------------
    def _cmp(self, o, op):
        o = Sym.lift(o)
        if o is NotImplemented:
            return o
        if isinstance(o, float):
            if o != o:
                return op == "ne"
            big = o > 0
            return {"lt": big, "le": big, "gt": not big, "ge": not big, "eq": False, "ne": True}[op]
        a, b = self, o
        if a.d is None and b.d is None:
            l, r = a.n, b.n
        elif a.d is not None and b.d is not None and a.d.eq(b.d):
            l, r = a.n, b.n
        elif b.d is None:
            l, r = a.n, zmul(b.n, a.d)
        elif a.d is None:
            l, r = zmul(a.n, b.d), b.n
        else:
            l, r = zmul(a.n, b.d), zmul(b.n, a.d)
        t = {"lt": l < r, "le": l <= r, "gt": l > r, "ge": l >= r, "eq": l == r, "ne": l != r}[op]
        return SymBool(t)

    def __lt__(self, o):
        return self._cmp(o, "lt")

    def __le__(self, o):
        return self._cmp(o, "le")

    def __gt__(self, o):
        return self._cmp(o, "gt")

    def __ge__(self, o):
        return self._cmp(o, "ge")

    def __eq__(self, o):
        return self._cmp(o, "eq")

    def __ne__(self, o):
        return self._cmp(o, "ne")

    def __bool__(self):
        return bool(self != 0)

    def __repr__(self):
        s = str(self.t).replace("\n", " ")
        return "Sym(%s)" % (s if len(s) < 60 else s[:57] + "...")

    # numpy calls these by name on object arrays
    def conjugate(self):
        return self

    def copy(self):
        return self

    def __copy__(self):
        return self

    def __deepcopy__(self, memo):
        return self


class SymBool:
    __slots__ = ("t",)

    def __init__(self, t):
        self.t = t

    def __bool__(self):
        return cur().decide(self.t)

    @staticmethod
    def term(o):
        if isinstance(o, SymBool):
            return o.t
        if isinstance(o, (bool, np.bool_)):
            return z3.BoolVal(bool(o))
        return NotImplemented

    def __and__(self, o):
        t = SymBool.term(o)
        return t if t is NotImplemented else SymBool(z3.And(self.t, t))

    __rand__ = __and__

    def __or__(self, o):
        t = SymBool.term(o)
        return t if t is NotImplemented else SymBool(z3.Or(self.t, t))

    __ror__ = __or__

    def __invert__(self):
        return SymBool(z3.Not(self.t))

    def __hash__(self):
        raise TypeError("symbolic boolean used as a key")

    def __repr__(self):
        return "SymBool(%s)" % str(self.t)[:60]


# --------------------------------------------------------------------- helpers
def term(o):
    """z3 real term of a cell (Sym or concrete finite number)."""
    if isinstance(o, Sym):
        return o.t
    if isinstance(o, SymBool):
        return z3.If(o.t, z3.RealVal(1), z3.RealVal(0))
    if is_special(o):
        raise EngineError("special float %r where a finite value is required" % (o,))
    if is_num(o):
        return RV(o)
    if isinstance(o, np.ndarray) and o.ndim == 0:
        return term(o.item())
    raise EngineError("not a numeric cell: %r" % (o,))


def bterm(o):
    if isinstance(o, SymBool):
        return o.t
    if isinstance(o, (bool, np.bool_)):
        return z3.BoolVal(bool(o))
    if z3.is_bool(o):
        return o
    raise EngineError("not a boolean: %r" % (o,))


def ite(c, a, b):
    """merge: If(c, a, b) without forking when both arms are finite numbers."""
    if isinstance(c, (bool, np.bool_)):
        return a if c else b
    if not isinstance(c, SymBool):
        raise EngineError("ite condition %r" % (c,))
    if is_special(a) or is_special(b) or not (isinstance(a, Sym) or is_num(a)) or not (isinstance(b, Sym) or is_num(b)):
        return a if bool(c) else b
    return Sym(z3.simplify(z3.If(c.t, term(a), term(b))))


def smax(a, b):
    if isinstance(a, Sym) or isinstance(b, Sym):
        if is_special(a) or is_special(b):
            if (is_special(a) and a != a) or (is_special(b) and b != b):
                return math.nan
            return a if bool(a >= b) else b
        return ite(a >= b, a, b)
    return a if a >= b else b


def smin(a, b):
    if isinstance(a, Sym) or isinstance(b, Sym):
        if is_special(a) or is_special(b):
            if (is_special(a) and a != a) or (is_special(b) and b != b):
                return math.nan
            return a if bool(a <= b) else b
        return ite(a <= b, a, b)
    return a if a <= b else b


def _allbool(xs):
    return all(isinstance(x, (bool, np.bool_)) for x in xs)


def AND(*xs):
    if _allbool(xs):
        return all(bool(x) for x in xs)
    ts = [bterm(x) for x in xs]
    return SymBool(z3.And(*ts)) if ts else True


def OR(*xs):
    if _allbool(xs):
        return any(bool(x) for x in xs)
    ts = [bterm(x) for x in xs]
    return SymBool(z3.Or(*ts)) if ts else False


def NOT(x):
    if _allbool([x]):
        return not bool(x)
    return SymBool(z3.Not(bterm(x)))


def IMPLIES(a, b):
    if _allbool([a, b]):
        return (not bool(a)) or bool(b)
    return SymBool(z3.Implies(bterm(a), bterm(b)))


def EQ(a, b):
    """cell equality as a condition (handles concrete/concrete too)."""
    if isinstance(a, Sym) or isinstance(b, Sym):
        r = (a == b) if isinstance(a, Sym) else (b == a)
        return r
    if is_special(a) or is_special(b):
        return bool(a == b) or (a != a and b != b)
    return bool(a == b)


def is_int_valued(x):
    t = term(x)
    return SymBool(z3.IsInt(t))


# ---- tolerant relations usable on both symbolic cells and concrete floats -------------
_TOL = 1e-7


def _conc(a, b):
    return not isinstance(a, (Sym, SymBool)) and not isinstance(b, (Sym, SymBool))


def _scale(a, b):
    return _TOL * max(1.0, abs(float(a)), abs(float(b)))


def GE(a, b):
    if _conc(a, b):
        if is_special(a) or is_special(b):
            return bool(a >= b)
        return bool(float(a) >= float(b) - _scale(a, b))
    return (a >= b) if isinstance(a, Sym) else (b <= a)


def LE(a, b):
    return GE(b, a)


def GT(a, b):
    if _conc(a, b):
        return bool(float(a) > float(b))
    return (a > b) if isinstance(a, Sym) else (b < a)


def LT(a, b):
    return GT(b, a)


def AEQ(a, b):
    """approximate equality on floats, exact on symbolic cells."""
    if _conc(a, b):
        if is_special(a) or is_special(b):
            return bool(a == b) or (a != a and b != b)
        return bool(abs(float(a) - float(b)) <= _scale(a, b))
    return EQ(a, b)


def concrete_true(c):
    if isinstance(c, SymBool):
        raise EngineError("symbolic condition in concrete mode")
    return bool(c)
