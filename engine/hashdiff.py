"""python -m engine.hashdiff <harness module> <case name> <tier>

Runs the FIRST symbolic path of one case and then its concrete replay, and prints a digest of (a) the symbolic output terms,
(b) the arguments handed to the nondeterministic stubs (seeds!), (c) the concrete outputs.  The caller runs this in two
interpreters started with different PYTHONHASHSEED and compares the digests: Python's per-process salting of str hashes (set
order, hash()-derived seeds) is the one entropy source the in-process proxies cannot see."""
import hashlib
import importlib
import json
import sys

import numpy as np


def canon(x):
    from engine.sym import Sym, SymBool

    if isinstance(x, Sym):
        return "T:" + x.t.sexpr()
    if isinstance(x, SymBool):
        return "B:" + x.t.sexpr()
    if isinstance(x, float):
        return "F:%r" % x
    return "O:%s" % (x,)


def main():
    modname, case_name, tier = sys.argv[1], sys.argv[2], sys.argv[3]
    from engine import harness as H, explorer, sym, stubs

    mod = importlib.import_module(modname)
    H.prepare(mod)
    case = next(c for c in mod.cases(tier) if c["name"] == case_name)
    seeds_seen = []
    orig_stub_values = stubs.stub_values

    def rec_stub_values(ctx, name, args, n_out, label=None):
        if name.startswith("BOOT_"):
            seeds_seen.append("%s:%s" % (name, ",".join(str(a) for a in args[-3:])))
        return orig_stub_values(ctx, name, args, n_out, label=label)

    stubs.stub_values = rec_stub_values
    ctx = explorer.Ctx([], 20000, False, 0)
    sym.set_cur(ctx)
    try:
        obl, out = mod.run(ctx, case)
    finally:
        sym.set_cur(None)
    flat = H._flat_outputs(out)
    sym_digest = hashlib.sha256("\n".join("%s=%s" % (k, canon(flat[k])) for k in sorted(flat)).encode()).hexdigest()
    order_digest = hashlib.sha256("\n".join(list(flat)).encode()).hexdigest()
    stub_digest = hashlib.sha256("\n".join("%s=%s" % (l, t.sexpr() if hasattr(t, "sexpr") else t) for l, t in ctx.stub_terms).encode()).hexdigest()
    m = ctx.get_model()
    w = explorer.make_witness(ctx, m)
    r = H.run_concrete(mod, case, w)
    cflat = H._flat_outputs(r["outputs"]) if r["outcome"] == "completed" else {}
    conc_digest = hashlib.sha256("\n".join("%s=%r" % (k, cflat[k]) for k in sorted(cflat)).encode()).hexdigest()
    print("HASHDIFF " + json.dumps(dict(symbolic=sym_digest, key_order=order_digest, stubs=stub_digest, seeds=seeds_seen[:40],
                                        concrete=conc_digest, concrete_outcome=r["outcome"], n_outputs=len(flat))))


if __name__ == "__main__":
    main()
