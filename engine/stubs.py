"""Nondeterministic, contract-only stubs for the numeric leaves that cannot be encoded
(LP quantile regression, OLS, scipy bootstrap, generators, S3).  In symbolic mode a
stub output is an uninterpreted function of the stub's actual argument cells (so
equal arguments give equal results and nothing else is assumed); in concrete
replay mode it returns the values the solver's model assigned, in call order, or
delegates to the real component when the harness asks for that.
"""
import inspect
import math

import numpy as np
import z3

from . import sym
from .sym import Sym, term, RV

_UF = {}


def uf(name, arity):
    key = (name, arity)
    if key not in _UF:
        _UF[key] = z3.Function("%s_%d" % (name, arity), *([z3.RealSort()] * arity), z3.RealSort())
    return _UF[key]


def cells(*arrays):
    out = []
    for a in arrays:
        if a is None:
            continue
        v = getattr(a, "values", a)
        if isinstance(v, np.ndarray):
            out.extend(term(e) for e in v.ravel())
        elif isinstance(v, (list, tuple)):
            out.extend(term(e) for e in v)
        else:
            out.append(term(v))
    return out


def stub_values(ctx, name, args, n_out, label=None):
    """n_out outputs, each UF_name_j(args) ; concrete mode: replayed constants."""
    label = label or name
    if getattr(ctx, "concrete", False):
        return [ctx.stub_value("%s[%d]" % (label, j)) for j in range(n_out)]
    if not args:
        args = [RV(0)]
    outs = []
    for j in range(n_out):
        f = uf("%s_o%d" % (name, j), len(args))
        outs.append(ctx.stub_term("%s[%d]" % (label, j), f(*args)))
    return outs


def obj_array(vals, shape=None):
    a = np.empty(len(vals), dtype=object)
    a[:] = vals
    return a.reshape(shape) if shape is not None else a


# ----------------------------------------------------------------- QR solver
class QRStub:
    """Replacement for elexsolver.QuantileRegressionSolver.fit / predict.

    calls: list of dicts with the arguments bound against the REAL signature of fit
    (so a keyword the real solver does not accept still raises TypeError).
    mode 'uf'     : coefficients are UFs of (x, y, normalised-or-not weights, tau, lambda_, fit_intercept)
                    -- normalize_weights is deliberately NOT an argument of the UF (weights are passed as
                    given; the real solver's optimum is invariant under weight scaling)
    mode 'median' : intercept-only designs get the exact LP optimality condition of the weighted tau-quantile
    fail(k)       : optional callback -> None | Exception instance to raise at call k (fault injection)
    """

    def __init__(self, mode="uf", fail=None, real_in_replay=False):
        self.mode = mode
        self.calls = []
        self.fail = fail
        self.real_in_replay = real_in_replay
        self.by_solver = {}
        self.n_solves = 0  # one solve per quantile: the fault hook is indexed by solves (== fit calls while every fit has one quantile)
        self._nested = False
        self._orig_fit = None
        self._orig_predict = None
        self._sig = None

    def install(self):
        from elexsolver.QuantileRegressionSolver import QuantileRegressionSolver as Q

        self._orig_fit, self._orig_predict = Q.fit, Q.predict
        self._sig = inspect.signature(Q.fit)
        stub = self

        def fit(qself, *a, **k):
            return stub._fit(qself, *a, **k)

        def predict(qself, x):
            return stub._predict(qself, x)

        Q.fit, Q.predict = fit, predict
        return self

    def uninstall(self):
        from elexsolver.QuantileRegressionSolver import QuantileRegressionSolver as Q

        Q.fit, Q.predict = self._orig_fit, self._orig_predict

    def _fit(self, qself, *a, **k):
        ctx = sym.cur()
        b = self._sig.bind(qself, *a, **k)  # TypeError for unknown keywords, like the real thing
        b.apply_defaults()
        A = dict(b.arguments)
        A.pop("self", None)
        idx = len(self.calls)
        rec = dict(A, index=idx)
        self.calls.append(rec)
        self.by_solver.setdefault(id(qself), []).append(rec)
        taus_l = [A["taus"]] if isinstance(A["taus"], float) else list(A["taus"])
        base = self.n_solves
        rec["solve_index"] = base
        if not self._nested:
            self.n_solves += len(taus_l)
        if self.fail is not None and not self._nested:
            e, fj = None, 0
            for fj in range(len(taus_l)):
                e = self.fail(base + fj, rec)
                if e is not None:
                    break
            if e is not None:
                rec["failed"] = True
                if fj > 0:
                    # the real solver appends one coefficient vector per quantile as it goes: the quantiles solved before the
                    # failing one stay behind in solver.coefficients
                    self._nested = True
                    try:
                        self._fit(qself, **dict(A, taus=taus_l[:fj]))
                    finally:
                        self._nested = False
                    inner = self.calls.pop()
                    self.by_solver[id(qself)].remove(inner)
                    rec["partial_coefs"] = inner.get("coefs")
                    A = dict(A, taus=taus_l[fj:])
                if isinstance(e, Warning):
                    import warnings

                    # issued "from module cvxpy" so that the repository's own
                    # warnings.filterwarnings("error", category=UserWarning, module="cvxpy") decides
                    warnings.warn_explicit(str(e), type(e), "cvxpy/problems/problem.py", 1, module="cvxpy.problems.problem",
                                           registry={})
                    rec["warning_not_raised"] = True
                else:
                    raise e
        lab = ("%dp" % (idx - 1)) if self._nested else str(idx)
        x, y = np.asarray(A["x"], dtype=object), np.asarray(A["y"], dtype=object)
        taus = A["taus"]
        taus = [taus] if isinstance(taus, float) else list(taus)
        w = A["weights"]
        if w is None:
            w = np.ones(y.shape[0])
        w = np.asarray(w, dtype=object)
        if getattr(ctx, "concrete", False) and self.real_in_replay:
            xf, yf, wf = x.astype(float), y.astype(float), w.astype(float)
            A2 = dict(A, x=xf, y=yf, weights=wf)
            n0 = len(qself.coefficients)
            for tau in taus:  # keep the recorded stub sequence aligned (values are ignored: the real solver decides)
                if self.mode == "median" and x.shape[1] == 1:
                    ctx.stub_value("qr%s_tau%s" % (lab, tau))
                else:
                    for j in range(x.shape[1]):
                        ctx.stub_value("qr%s_tau%s[%d]" % (lab, tau, j))
            r = self._orig_fit(qself, **A2)
            rec["coefs"] = [np.asarray(c, dtype=float) for c in qself.coefficients[n0:]]
            return r
        if A["normalize_weights"]:
            tot = w.sum()
            if not isinstance(tot, Sym) and tot == 0:
                raise ZeroDivisionError
        if x.shape[0] == 0:
            # the real solver divides by the (zero) weight sum of an empty design
            raise ZeroDivisionError
        coefs = []
        for tau in taus:
            if self.mode == "median" and x.shape[1] == 1 and all(
                    (not isinstance(e, Sym)) and e == 1 for e in x[:, 0]) and not getattr(ctx, "concrete", False):
                c = ctx.stub_real("qr%s_tau%s" % (lab, tau))
                W = w.sum()
                below = sum((sym.ite(yi < c, wi, 0) for yi, wi in zip(y, w)), 0)
                upto = sum((sym.ite(yi <= c, wi, 0) for yi, wi in zip(y, w)), 0)
                ctx.assume(sym.AND(below <= tau * W, upto >= tau * W, sym.OR(*[c == yi for yi in y])))
                coefs.append(obj_array([c]))
            else:
                args = cells(x, y, w) + [RV(float(tau)), term(A["lambda_"]), RV(int(bool(A["fit_intercept"])))]
                outs = stub_values(ctx, "QR_%dx%d" % x.shape, args, x.shape[1], label="qr%s_tau%s" % (lab, tau))
                coefs.append(obj_array(outs))
        rec["coefs"] = coefs
        for c in coefs:
            qself.coefficients.append(c)

    def _predict(self, qself, x):
        x = np.asarray(getattr(x, "values", x))
        for rec in self.by_solver.get(id(qself), []):
            rec.setdefault("predict_widths", []).append(x.shape[1] if x.ndim == 2 else None)
        if x.dtype != object:
            if np.any(np.isnan(x)) or np.any(np.isinf(x)):
                raise ValueError("Array contains NaN or Infinity")
        else:
            for e in x.ravel():
                if sym.is_special(e):
                    raise ValueError("Array contains NaN or Infinity")
        coefs = qself.coefficients
        if isinstance(coefs, list):
            if all(isinstance(c, np.ndarray) and c.dtype != object for c in coefs) and x.dtype != object:
                return np.asarray(coefs) @ x.T
            C = np.empty((len(coefs), x.shape[1]), dtype=object)
            for i, c in enumerate(coefs):
                C[i, :] = list(c)
            coefs = C
        out = np.empty((coefs.shape[0], x.shape[0]), dtype=object)
        for i in range(coefs.shape[0]):
            for r in range(x.shape[0]):
                acc = 0
                for j in range(x.shape[1]):
                    xv = x[r, j]
                    if not isinstance(xv, Sym) and xv == 0:
                        continue
                    acc = acc + coefs[i, j] * xv
                out[i, r] = acc
        if not sym_in(out):
            return out.astype(float)
        return out


def sym_in(a):
    return any(isinstance(e, Sym) for e in np.asarray(a, dtype=object).ravel())


# ------------------------------------------------------------- boot_sigma
class BootSigmaStub:
    """math_utils.boot_sigma -> scipy.stats.bootstrap.  The stub replaces scipy.stats.bootstrap as seen by
    math_utils: if the caller passes random_state / rng the result is a UF of (data, confidence level, seed);
    otherwise it is a fresh unconstrained positive value on every call (unseeded resampling)."""

    def __init__(self, force_deterministic=False):
        self.calls = 0
        self._orig = None
        self.force_deterministic = force_deterministic  # treat unseeded calls as a function of the data too

    def install(self):
        from elexmodel.utils import math_utils

        self._orig = math_utils.bootstrap
        stub = self

        class _CI:
            def __init__(self, high):
                self.confidence_interval = type("CI", (), {"high": high, "low": None})()

        def bootstrap(data, statistic, *, confidence_level=0.95, method="BCa", n_resamples=9999, random_state=None,
                      rng=None, **kw):
            ctx = sym.cur()
            stub.calls += 1
            seedv = rng if rng is not None else random_state
            if seedv is None and stub.force_deterministic:
                seedv = 0
            d = np.asarray(data[0] if isinstance(data, (tuple, list)) else data, dtype=object)
            if seedv is None:
                if getattr(ctx, "concrete", False):
                    v = ctx.stub_value("boot_sigma_unseeded%d" % stub.calls)
                else:
                    v = ctx.stub_real("boot_sigma_unseeded%d" % stub.calls)
                    ctx.assume(v > 0)
            else:
                if isinstance(seedv, np.random.Generator):
                    # a generator: its answer is a function of its seed and of how far it has been advanced
                    bg = seedv.bit_generator
                    ent = getattr(getattr(bg, "seed_seq", None), "entropy", None)
                    seedv = (hash((str(ent), str(bg.state))) % (10 ** 9))
                    bg.advance(1) if hasattr(bg, "advance") else None
                elif isinstance(seedv, np.random.RandomState):
                    seedv = hash(str(seedv.get_state()[1][:8].tolist()) + str(seedv.get_state()[2])) % (10 ** 9)
                if not isinstance(seedv, (int, np.integer)):
                    raise sym.Inconclusive("bootstrap seeded with an object of type %s" % type(seedv).__name__)
                args = cells(d) + [RV(float(confidence_level)), RV(int(seedv)), RV(int(n_resamples)),
                                   RV(__import__("zlib").crc32(getattr(statistic, "__name__", "f").encode()) % 997)]
                v = stub_values(ctx, "BOOT_%d" % d.size, args, 1, label="boot_sigma%d" % stub.calls)[0]
                if not getattr(ctx, "concrete", False):
                    ctx.assume(v > 0)
            return _CI(v)

        math_utils.bootstrap = bootstrap
        return self

    def uninstall(self):
        from elexmodel.utils import math_utils

        math_utils.bootstrap = self._orig


# ---------------------------------------------------------------------- S3
class FakeS3:
    """records every put; nothing leaves the process."""

    def __init__(self):
        self.puts = []  # (class name, key, kwargs)
        self._saved = []

    def install(self):
        from elexmodel.handlers import s3

        rec = self

        def mk_init(cls):
            def __init__(self, bucket_name, client=None):
                self.bucket_name = bucket_name
                self.client = _FakeBoto(rec, cls.__name__)

            return __init__

        for cls in (s3.S3Util,):
            self._saved.append((cls, "__init__", cls.__init__))
            cls.__init__ = mk_init(cls)
        return self

    def uninstall(self):
        for cls, name, f in self._saved:
            setattr(cls, name, f)
        self._saved = []


class _FakeBoto:
    def __init__(self, rec, owner):
        self.rec = rec
        self.owner = owner

    def put_object(self, **kw):
        self.rec.puts.append(dict(Key=kw.get("Key"), Bucket=kw.get("Bucket"), ContentType=kw.get("ContentType"),
                                  size=len(kw.get("Body") or "")))
        return True

    def get_object(self, **kw):
        raise RuntimeError("unexpected S3 get in a check: %r" % (kw.get("Key"),))
