"""CrossHair contracts for C19 (version listing and retrieval).  Run through engine/xhair.py."""
import datetime
import io
from typing import List, Optional

import pandas as pd

from elexmodel.handlers.s3 import S3VersionUtil


class FakeClient:
    """scripted S3 service: newest-first listing, `page` versions per response, markers as the real service"""

    def __init__(self, times, page):
        self.times = times
        self.page = page
        self.calls = 0

    def list_object_versions(self, Bucket=None, Prefix=None, KeyMarker=None, VersionIdMarker=None):
        self.calls += 1
        start = 0 if VersionIdMarker is None else VersionIdMarker
        chunk = self.times[start:start + self.page]
        end = start + len(chunk)
        resp = {"IsTruncated": end < len(self.times)}
        if chunk:
            resp["Versions"] = [{"VersionId": start + i, "LastModified": t, "Size": 1} for i, t in enumerate(chunk)]
        if resp["IsTruncated"]:
            resp["NextKeyMarker"] = "k"
            resp["NextVersionIdMarker"] = end
        return resp


def _util(times, page, start, end):
    u = S3VersionUtil.__new__(S3VersionUtil)
    u.bucket_name = "b"
    u.s3_client = FakeClient(times, page)
    u.start_date = start
    u.end_date = end
    u.tz = "UTC"
    return u


def post_list_versions(times, page, start, end, ret):
    want = [i for i, t in enumerate(times) if (start is None or t >= start) and (end is None or t <= end)]
    return ret == want


def list_versions(times: List[int], page: int, start: Optional[int], end: Optional[int]) -> List[int]:
    """
    pre: 1 <= page <= 3 and len(times) <= 5
    pre: all(times[i] >= times[i+1] for i in range(len(times)-1))
    post: post_list_versions(times, page, start, end, __return__)
    """
    u = _util(times, page, start, end)
    return [v["VersionId"] for v in u.list_versions("p")]


def list_versions_reach(times: List[int], page: int, start: Optional[int], end: Optional[int]) -> List[int]:
    """
    pre: 1 <= page <= 3 and len(times) <= 5
    pre: all(times[i] >= times[i+1] for i in range(len(times)-1))
    post: len(__return__) < 3
    """
    # reachability twin: must be REFUTED (a window holding 3 versions is reachable)
    u = _util(times, page, start, end)
    return [v["VersionId"] for v in u.list_versions("p")]


# ---------------------------------------------------------------------------- retrieval
class _Future:
    def __init__(self, fail):
        self.fail = fail

    def result(self):
        if self.fail:
            raise RuntimeError("download failed")


class FakeManager:
    def __init__(self, fails, log):
        self.fails = fails
        self.log = log

    def download(self, bucket, path, fileobj, extra_args=None, subscribers=None):
        vid = extra_args["VersionId"]
        self.log.append(vid)
        fail = self.fails[vid]
        if not fail:
            fileobj.write(("geographic_unit_fips,total,version\n%d,%d,%d\n" % (vid + 1, 10 * vid, vid)).encode())
        return _Future(fail)


BASE = datetime.datetime(2024, 11, 5, 20, 0, 0, tzinfo=datetime.timezone.utc)
ALL_TIMES = [BASE - datetime.timedelta(hours=i) for i in range(4)]  # newest first


def post_get(n, page, sample, fails, ret):
    listed = list(range(n))
    wanted = listed[::sample]
    ok = [v for v in wanted if not fails[v]]
    if n == 0:
        return ret == "none"
    if not ok:
        return True  # every sampled download failed: outside the statement
    if ret in ("none", "error"):
        return False
    return ret == ";".join("%d@%d" % (v, 20 - v - 5) for v in ok)  # version v was modified at 20:00 - v h UTC = (15 - v):00 in New York


def get_versions(n: int, page: int, sample: int, fails: List[bool]) -> str:
    """
    pre: 0 <= n <= 4 and 1 <= page <= 3 and 1 <= sample <= 3 and len(fails) == 4
    post: post_get(n, page, sample, fails, __return__)
    """
    times = ALL_TIMES[:n]
    u = _util(times, page, None, None)
    u.tz = "America/New_York"
    log: List[int] = []
    u.manager = FakeManager(fails, log)
    try:
        df = u.get("p", sample)
    except ValueError:
        return "error"
    if df is None:
        return "none"
    # every row carries its own version's modification time, in the requested timezone
    out = []
    for _, r in df.iterrows():
        ts = r["last_modified"]
        out.append("%d@%d" % (int(r["version"]), ts.hour))
        if str(ts.tzinfo) not in ("tzfile('/usr/share/zoneinfo/America/New_York')", "tzfile('America/New_York')") and "New_York" not in str(ts.tzinfo):
            return "wrong-tz"
        if int(r["results_turnout"]) != 10 * int(r["version"]):
            return "wrong-rows"
    return ";".join(out)
