"""CrossHair contracts for C18: every remote key is a whitespace-free path under <root>/<election id>/ for every id string."""
from typing import List

import pandas as pd

from elexmodel.distributions.GaussianModel import GaussianModel
from elexmodel.handlers import s3
from elexmodel.handlers.data.CombinedData import CombinedDataHandler
from elexmodel.handlers.data.ModelResults import ModelResultsHandler
from elexmodel.utils.file_utils import S3_FILE_PATH


class Dummy:
    """stands in for a data frame: every attribute, call, item and operator gives back a Dummy.  The key builders
    only format strings; keeping pandas out of the traced code keeps CrossHair's str reasoning exact."""

    def __getattr__(self, n):
        if n.startswith("__"):
            raise AttributeError(n)
        return Dummy()

    def __call__(self, *a, **k):
        return Dummy()

    def __getitem__(self, k):
        return Dummy()

    def __invert__(self):
        return Dummy()

    def __or__(self, o):
        return Dummy()

    __ior__ = __ror__ = __and__ = __or__


def _csv(df):
    return "csv"


class Rec:
    keys: List[str] = []

    def __init__(self, bucket, client=None):
        pass

    def put(self, filename, data, **kw):
        Rec.keys.append(filename)


def _ok(keys, eid):
    return all((not any(c.isspace() for c in k)) and k.startswith("%s/%s/" % (S3_FILE_PATH, eid)) for k in keys)


def post_gaussian_conf_key(eid, office, gut, estimand, ret):
    return len(ret) == 1 and _ok(ret, eid)


def _gaussian(eid, office, gut, estimand, which):
    Rec.keys = []
    orig = s3.S3CsvUtil
    s3.S3CsvUtil = Rec
    try:
        g = GaussianModel({"election_id": eid, "office": office, "geographic_unit_type": gut})
        df = Dummy()
        import elexmodel.distributions.GaussianModel as M

        oc, M.convert_df_to_csv = M.convert_df_to_csv, _csv
        try:
            if which == "conf":
                g._write_conformalization_data(df, eid, office, gut, estimand, ["postal_code"], 0.9)
            else:
                g._write_gaussian_bounds(df, eid, office, gut, estimand, ["postal_code"], 0.9)
        finally:
            M.convert_df_to_csv = oc
    finally:
        s3.S3CsvUtil = orig
    return list(Rec.keys)


def gaussian_conf_key(eid: str, office: str, gut: str, estimand: str) -> List[str]:
    """
    pre: 1 <= len(eid) <= 2 and 1 <= len(office) <= 1 and 1 <= len(gut) <= 2 and 1 <= len(estimand) <= 1
    pre: not any(c.isspace() for c in eid + office + gut + estimand)
    post: post_gaussian_conf_key(eid, office, gut, estimand, __return__)
    """
    return _gaussian(eid, office, gut, estimand, "conf")


post_gaussian_bounds_key = post_gaussian_conf_key


def gaussian_bounds_key(eid: str, office: str, gut: str, estimand: str) -> List[str]:
    """
    pre: 1 <= len(eid) <= 2 and 1 <= len(office) <= 1 and 1 <= len(gut) <= 2 and 1 <= len(estimand) <= 1
    pre: not any(c.isspace() for c in eid + office + gut + estimand)
    post: post_gaussian_bounds_key(eid, office, gut, estimand, __return__)
    """
    return _gaussian(eid, office, gut, estimand, "bounds")


def post_combined_keys(eid, office, gut, ret):
    return len(ret) == 2 and _ok(ret, eid)


def combined_keys(eid: str, office: str, gut: str) -> List[str]:
    """
    pre: 1 <= len(eid) <= 3 and 1 <= len(office) <= 2 and 1 <= len(gut) <= 2
    pre: not any(c.isspace() for c in eid + office + gut)
    post: post_combined_keys(eid, office, gut, __return__)
    """
    Rec.keys = []
    orig = s3.S3CsvUtil
    s3.S3CsvUtil = Rec
    try:
        h = CombinedDataHandler.__new__(CombinedDataHandler)
        h.current_data = Dummy()
        h.geographic_unit_type = gut
        import elexmodel.handlers.data.CombinedData as M

        oc, M.convert_df_to_csv = M.convert_df_to_csv, _csv
        try:
            h.write_data(eid, office)
        finally:
            M.convert_df_to_csv = oc
    finally:
        s3.S3CsvUtil = orig
    return list(Rec.keys)


def post_results_keys(eid, office, gut, ret):
    return len(ret) == 2 and _ok(ret, eid)


def results_keys(eid: str, office: str, gut: str) -> List[str]:
    """
    pre: 1 <= len(eid) <= 3 and 1 <= len(office) <= 2 and 1 <= len(gut) <= 2
    pre: not any(c.isspace() for c in eid + office + gut)
    post: post_results_keys(eid, office, gut, __return__)
    """
    Rec.keys = []
    orig = s3.S3CsvUtil
    s3.S3CsvUtil = Rec
    try:
        h = ModelResultsHandler.__new__(ModelResultsHandler)
        h.final_results = {"state_data": Dummy(), "unit_data": Dummy()}
        import elexmodel.handlers.data.ModelResults as M

        oc, M.convert_df_to_csv = M.convert_df_to_csv, _csv
        try:
            h.write_data(eid, office, gut)
        finally:
            M.convert_df_to_csv = oc
    finally:
        s3.S3CsvUtil = orig
    return list(Rec.keys)


def post_file_path(eid, office, gut, ret):
    return _ok(ret, eid)


def file_path(eid: str, office: str, gut: str) -> List[str]:
    """
    pre: 1 <= len(eid) <= 3 and 1 <= len(office) <= 2 and 1 <= len(gut) <= 2
    pre: not any(c.isspace() for c in eid + office + gut)
    post: post_file_path(eid, office, gut, __return__)
    """
    u = s3.S3Util("b", client=object())
    return [u.get_file_path("preprocessed", {"election_id": eid, "office": office, "geographic_unit_type": gut}),
            u.get_file_path("config", {"election_id": eid})]


def file_path_reach(eid: str, office: str, gut: str) -> List[str]:
    """
    pre: 1 <= len(eid) <= 3 and 1 <= len(office) <= 2 and 1 <= len(gut) <= 2
    pre: not any(c.isspace() for c in eid + office + gut)
    post: "x" not in __return__[0]
    """
    u = s3.S3Util("b", client=object())
    return [u.get_file_path("preprocessed", {"election_id": eid, "office": office, "geographic_unit_type": gut})]
