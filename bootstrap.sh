#!/bin/sh
# Idempotent: create the overlay interpreter /verif/.venv on top of /venv
# (the repository's own environment) and add the solver tooling from the
# offline wheelhouse.  Called by MANIFEST.setup_cmd and by ./check itself.
set -e
cd "$(dirname "$0")"
V=.venv
if [ ! -x "$V/bin/python" ] || ! "$V/bin/python" -c "import z3, crosshair, jsonschema, pandas" >/dev/null 2>&1; then
  rm -rf "$V"
  /venv/bin/python -m venv "$V"
  SP=$("$V/bin/python" -c "import sysconfig;print(sysconfig.get_paths()['purelib'])")
  echo "import site; site.addsitedir('/venv/lib/python3.12/site-packages')" > "$SP/_repo_venv.pth"
  PIP_NO_INDEX=1 "$V/bin/python" -m pip install -q --no-index --find-links /opt/veriftools/wheels \
      z3-solver crosshair-tool cvc5 jsonschema >/dev/null
  "$V/bin/python" -c "import z3, crosshair, jsonschema, pandas"
fi
mkdir -p evidence replays
exit 0
